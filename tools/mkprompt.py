#!/usr/bin/env python3
"""usage: mkprompt.py <ID> <suffix>  — prints the brief given to a fresh sub-agent that writes a seeded change.
The agent gets the property text, a scratch worktree and (so that rounds do not repeat each other) a one-paragraph
summary of what the earlier seeds of that property changed. Nothing about /verif's checks is given."""
import json, sys, glob, os
pid, sfx = sys.argv[1], sys.argv[2]
prop = None
for l in open('/verif/properties.jsonl'):
    p = json.loads(l)
    if p['id'] == pid:
        prop = p
earlier = []
for d in sorted(glob.glob('/verif/seeded/%s*/meta.json' % pid)):
    m = json.load(open(d))
    earlier.append('- ' + m.get('summary', '')[:700])
wt = '/tmp/wt-%s%s' % (pid, sfx)
sd = '/tmp/seed-%s%s' % (pid, sfx)
print(f"""You are helping to test a verification effort for the Go library grafana/dskit. Your job: write ONE realistic change to dskit that BREAKS the semantic property below, while the code still compiles and the repository's existing tests still pass. Work ONLY in the scratch git worktree {wt} (a checkout of the repository; already created). Do not read or touch /verif or /repo. Write your deliverables to {sd}/ (create it).

Environment (no network): in every shell call `export GOFLAGS=-mod=mod GOPROXY=off` and leave GOTOOLCHAIN unset. Use `go test -vet=off -count=1 ...`. The machine is shared with other jobs: run only the tests of the packages you touched (and of packages that import what you changed, if the change is to an exported behaviour), not the whole repository; never use more than `-p 4`.

THE PROPERTY ({prop['id']}: {prop['title']})
Statement: {prop['statement']}
Quantified over: {prop['quantifier']['text']}
Why the existing tests cannot settle it: {prop['why_tests_cant']}
Code it is anchored in: {json.dumps(prop['anchors']['files'])}; mechanisms: {json.dumps([m['name']+' @ '+m['where'] for m in prop['anchors']['mechanism']])}

WHAT I WANT
1. A change (to non-test .go files of dskit only, no build tags, no new dependencies) that a plausible developer could make — an "optimisation", a refactoring slip, a boundary condition, an ordering slip, a cache/shortcut, a dropped guard — after which the property is false for SOME input / schedule / history, but ordinary use and the existing tests do not show it. It must need something specific to manifest: a particular interleaving, a crash or fault at a particular point, a multi-step sequence of operations, an unusual input, or two cooperating sites that each look fine alone. NOT something every call exposes at once. Keep it small (typically 3-30 changed lines).
2. It must be DIFFERENT in mechanism and location from these earlier seeded changes for the same property (do something else, ideally touching a clause of the statement or a code path these do not):
{chr(10).join(earlier) if earlier else '- (none)'}
3. A demonstration: ONE new test file inside the worktree, in the package you changed (name it zz_seed_demo_test.go, test function exactly `TestSeedDemo`), deterministic (no reliance on lucky timing: use explicit synchronisation / hooks you write in the test, loops over inputs, etc.), that FAILS with your change and PASSES without it. It should fail because the property is violated (assert what the statement promises), not because of an incidental detail.
4. Verify yourself: (a) `go build ./...` ok; (b) demo fails with the change; (c) existing tests of every package you touched pass with the change (`go test -vet=off -count=1 -skip 'TestSeedDemo$' ./<pkg>/...`) — if an existing test fails, change your approach; some timing-sensitive existing tests flake under load — re-run a failing test alone before concluding; (d) `git stash`-free check that the demo passes without the change: `git diff > {sd}/patch.diff` (only non-test source changes in it — the demo file is untracked so it is not in the diff), `git apply -R {sd}/patch.diff`, run demo (must pass), then `git apply {sd}/patch.diff` again.

DELIVERABLES in {sd}/:
- patch.diff  (output of `git diff` in the worktree: the source change only)
- zz_seed_demo_test.go (copy of the demo file)
- demo_path.txt  (one line: the path of the demo file relative to the repository root, e.g. ring/zz_seed_demo_test.go)
- meta.json with string fields: property ("{pid}"), summary (what you changed, where), breaks (which clause, how), needs_to_manifest (the specific condition), existing_tests_run (exact commands and results), demo_cmd.
Leave the worktree with the patch applied and the demo file in place. Final answer: a 5-line summary (what, where, what it needs, demo result with/without, existing tests result).""")
