// C19 — cache wrappers never return wrong, deleted or expired data; placement is stable.
// Engine E1: every operation sequence up to depth D over a small alphabet against every stacking
// order of the wrappers on the in-process backend, compared with a map-with-expiry reference;
// complete enumeration of the jump-hash selector for 1..64 servers.
package c19

import (
	"bytes"
	"context"
	"errors"
	"fmt"
	"net"
	"runtime"
	"slices"
	"strings"
	"sync"
	"testing"
	"testing/synctest"
	"time"

	"github.com/go-kit/log"
	"github.com/golang/snappy"

	"github.com/grafana/dskit/cache"

	"verif/ev"
)

const lruDefaultTTL = 3 * time.Second

var big = func() []byte {
	b := make([]byte, 40)
	x := uint32(2463534242)
	for i := range b {
		x ^= x << 13
		x ^= x >> 17
		x ^= x << 5
		b[i] = byte(x)
	}
	return b
}()

// big2: the same length as big, also incompressible, different bytes (a batch of two such values)
var big2 = func() []byte {
	b := make([]byte, len(big))
	for i := range b {
		b[i] = big[len(big)-1-i] ^ 0x5a
	}
	return b
}()

var values = map[string][]byte{"x": []byte("x"), "y": []byte("y"), "big": big, "big2": big2, "empty": {}, "zeros": make([]byte, 40),
	// a plain value, and a value that happens to be a well-formed snappy stream (of another plain value of the same length):
	// bytes a compression wrapper must treat like any others
	"p8": []byte("aaaaaaaa"), "encq8": snappy.Encode(nil, []byte("bbbbbbbb"))}

// arena is a caller-side Allocator as the option describes it: buffers handed back through Put are given out
// again by Get (most recently returned first) when they are large enough.
type arena struct{ free []*[]byte }

func (a *arena) Get(sz int) *[]byte {
	for i := len(a.free) - 1; i >= 0; i-- {
		if cap(*a.free[i]) >= sz {
			b := a.free[i]
			a.free = append(a.free[:i], a.free[i+1:]...)
			*b = (*b)[:0]
			return b
		}
	}
	b := make([]byte, 0, sz)
	return &b
}
func (a *arena) Put(b *[]byte) { a.free = append(a.free, b) }

type op struct {
	kind string // set add setasync setmulti get delete advance
	keys []string
	vals []string
	ttl  time.Duration
	d    time.Duration
	who  int // which client (shared-backend configuration)
}

func (o op) String() string {
	switch o.kind {
	case "advance":
		return fmt.Sprintf("advance(%v)", o.d)
	case "get", "geterr":
		return fmt.Sprintf("c%d.%s%v", o.who, o.kind, o.keys)
	case "delete":
		return fmt.Sprintf("c%d.delete(%s)", o.who, o.keys[0])
	}
	return fmt.Sprintf("c%d.%s(%v=%v,%v)", o.who, o.kind, o.keys, o.vals, o.ttl)
}

func alphabet(clients int) []op {
	var ops []op
	for who := 0; who < clients; who++ {
		for _, k := range []string{"a", "1@a"} {
			for _, v := range []string{"x", "y", "big"} {
				for _, ttl := range []time.Duration{time.Second, 5 * time.Second} {
					if clients > 1 && (v == "big" || ttl == time.Second && k != "a") {
						continue
					}
					ops = append(ops, op{kind: "set", keys: []string{k}, vals: []string{v}, ttl: ttl, who: who})
				}
			}
			for _, v := range []string{"x", "y"} {
				ops = append(ops, op{kind: "add", keys: []string{k}, vals: []string{v}, ttl: 5 * time.Second, who: who})
			}
			ops = append(ops, op{kind: "delete", keys: []string{k}, who: who})
		}
		if clients == 1 {
			ops = append(ops, op{kind: "set", keys: []string{"a"}, vals: []string{"empty"}, ttl: 5 * time.Second},
				op{kind: "set", keys: []string{"a"}, vals: []string{"zeros"}, ttl: 5 * time.Second},
				op{kind: "setasync", keys: []string{"a"}, vals: []string{"y"}, ttl: time.Second},
				op{kind: "setasync", keys: []string{"1@a"}, vals: []string{"x"}, ttl: 5 * time.Second},
				op{kind: "setmulti", keys: []string{"a", "1@a"}, vals: []string{"x", "y"}, ttl: 5 * time.Second},
				op{kind: "setmulti", keys: []string{"a"}, vals: []string{"big"}, ttl: time.Second},
				// one batch carrying two incompressible values of the same length (whatever the order the wrapper walks the batch in)
				op{kind: "setmulti", keys: []string{"a", "1@a"}, vals: []string{"big", "big2"}, ttl: 5 * time.Second},
				// a TTL of zero: the entry is expired as soon as it is stored (it must still supersede what was there)
				op{kind: "set", keys: []string{"a"}, vals: []string{"y"}, ttl: 0},
				op{kind: "setasync", keys: []string{"a"}, vals: []string{"x"}, ttl: 0})
		}
		ops = append(ops, op{kind: "get", keys: []string{"a"}, who: who}, op{kind: "get", keys: []string{"a", "1@a"}, who: who}, op{kind: "geterr", keys: []string{"1@a"}, who: who})
	}
	for _, d := range []time.Duration{2 * time.Second, 4 * time.Second, 6 * time.Second} {
		ops = append(ops, op{kind: "advance", d: d})
	}
	return ops
}

type stackCfg struct {
	name    string
	layers  []string // outermost first: lru versioned snappy
	lruSize int
	shared  bool // two clients (versions 1 and 11) over one backend
	alloc   bool // reads pass WithAllocator(arena): whatever a layer does with the option, answers stay the same
	prepop  bool // a second instance of the same stack (same version) may write once, before the client under test starts
}

func perms(s []string) [][]string {
	if len(s) <= 1 {
		return [][]string{append([]string(nil), s...)}
	}
	var out [][]string
	for i := range s {
		rest := append(append([]string(nil), s[:i]...), s[i+1:]...)
		for _, p := range perms(rest) {
			out = append(out, append([]string{s[i]}, p...))
		}
	}
	return out
}

func stacks() []stackCfg {
	var out []stackCfg
	all := []string{"lru", "versioned", "snappy"}
	for m := 1; m < 8; m++ {
		var sub []string
		for i, l := range all {
			if m&(1<<i) != 0 {
				sub = append(sub, l)
			}
		}
		for _, p := range perms(sub) {
			hasLRU := strings.Contains(strings.Join(p, ","), "lru")
			sizes := []int{2}
			if hasLRU {
				sizes = []int{1, 2}
			}
			for _, sz := range sizes {
				out = append(out, stackCfg{name: strings.Join(p, ">") + fmt.Sprintf("(lru=%d)", sz), layers: p, lruSize: sz})
			}
		}
	}
	out = append(out,
		stackCfg{name: "shared:versioned>lru | versioned>lru", layers: []string{"versioned", "lru"}, lruSize: 2, shared: true},
		stackCfg{name: "shared:lru>versioned>snappy | same", layers: []string{"lru", "versioned", "snappy"}, lruSize: 2, shared: true})
	// reads with a caller-side allocator (small alphabet, one step deeper): every ordering of {lru, snappy} and of all three layers
	for _, sub := range [][]string{{"lru", "snappy"}, {"lru", "versioned", "snappy"}} {
		for _, p := range perms(sub) {
			out = append(out, stackCfg{name: "allocator:" + strings.Join(p, ">") + "(lru=2)", layers: p, lruSize: 2, alloc: true})
		}
	}
	// the backend may already hold entries written by another process running the same stack
	for _, l := range [][]string{{"lru"}, {"lru", "versioned", "snappy"}, {"versioned", "lru"}} {
		for _, sz := range []int{1, 2} {
			out = append(out, stackCfg{name: "prepopulated:" + strings.Join(l, ">") + fmt.Sprintf("(lru=%d)", sz), layers: l, lruSize: sz, prepop: true})
		}
	}
	return out
}

// small alphabet for the pre-populated configurations (explored one step deeper)
func alphabetPrepop() []op {
	var ops []op
	for _, v := range []string{"x", "y"} {
		for _, ttl := range []time.Duration{time.Second, 5 * time.Second} {
			ops = append(ops, op{kind: "set", keys: []string{"a"}, vals: []string{v}, ttl: ttl, who: 1}) // the other process; only as first operation
		}
		ops = append(ops, op{kind: "set", keys: []string{"a"}, vals: []string{v}, ttl: 5 * time.Second})
		ops = append(ops, op{kind: "add", keys: []string{"a"}, vals: []string{v}, ttl: 5 * time.Second})
	}
	ops = append(ops, op{kind: "get", keys: []string{"a"}}, op{kind: "get", keys: []string{"a", "1@a"}}, op{kind: "delete", keys: []string{"a"}},
		op{kind: "advance", d: 2 * time.Second}, op{kind: "advance", d: 4 * time.Second})
	return ops
}

// small alphabet for the allocator configurations (explored one step deeper): two keys, three values of which one is
// itself a well-formed compressed stream, reads of either key or both
func alphabetAlloc() []op {
	var ops []op
	for _, k := range []string{"a", "1@a"} {
		for _, v := range []string{"p8", "encq8", "x"} {
			ops = append(ops, op{kind: "set", keys: []string{k}, vals: []string{v}, ttl: 5 * time.Second})
		}
		ops = append(ops, op{kind: "get", keys: []string{k}})
	}
	ops = append(ops, op{kind: "get", keys: []string{"a", "1@a"}}, op{kind: "delete", keys: []string{"a"}}, op{kind: "advance", d: 4 * time.Second})
	return ops
}

func build(cfg stackCfg, backend cache.Cache, version uint) cache.Cache {
	c := backend
	for i := len(cfg.layers) - 1; i >= 0; i-- {
		switch cfg.layers[i] {
		case "lru":
			l, err := cache.WrapWithLRUCache(c, "t", nil, cfg.lruSize, lruDefaultTTL, log.NewNopLogger())
			if err != nil {
				panic(err)
			}
			c = l
		case "versioned":
			c = cache.NewVersioned(c, version, log.NewNopLogger())
		case "snappy":
			c = cache.NewSnappy(c, log.NewNopLogger())
		}
	}
	return c
}

type refEntry struct {
	val     string
	stored  time.Duration // virtual offset
	ttl     time.Duration
	deleted bool
	// extended: latest instant up to which an in-memory layer may still serve the entry: a read made while the
	// backend entry is alive may back-fill it for the default retention (zero: nothing back-filled yet)
	extended time.Duration
}

// run executes one sequence on a fresh stack; returns a violation description or "".
func run(cfg stackCfg, seq []op) (viol string, hits int) {
	backend := cache.NewMockCache()
	clients := []cache.Cache{build(cfg, backend, 1)}
	if cfg.shared {
		clients = append(clients, build(cfg, backend, 11))
	}
	if cfg.prepop {
		clients = append(clients, build(cfg, backend, 1))
	}
	hasLRU := strings.Contains(strings.Join(cfg.layers, ","), "lru")
	ref := map[string]*refEntry{} // "<client>/<key>"
	var now time.Duration
	ctx := context.Background()
	var ropts []cache.Option
	if cfg.alloc {
		ropts = append(ropts, cache.WithAllocator(&arena{}))
	}
	for i, o := range seq {
		c := clients[o.who]
		if cfg.prepop {
			if o.who == 1 && i > 0 {
				return "", hits // the other process writes only before the client under test starts
			}
			o.who = 0 // same version, same namespace
		}
		switch o.kind {
		case "advance":
			backend.Advance(o.d)
			time.Sleep(o.d) // the in-memory layer reads the (virtual) wall clock
			now += o.d
		case "set", "setasync", "setmulti":
			switch o.kind {
			case "set":
				if err := c.Set(ctx, o.keys[0], values[o.vals[0]], o.ttl); err != nil {
					return fmt.Sprintf("step %d %s: error %v", i, o, err), hits
				}
			case "setasync":
				c.SetAsync(o.keys[0], values[o.vals[0]], o.ttl)
			case "setmulti":
				m := map[string][]byte{}
				for j, k := range o.keys {
					m[k] = values[o.vals[j]]
				}
				c.SetMultiAsync(m, o.ttl)
			}
			for j, k := range o.keys {
				ref[fmt.Sprintf("%d/%s", o.who, k)] = &refEntry{val: o.vals[j], stored: now, ttl: o.ttl}
			}
		case "add":
			id := fmt.Sprintf("%d/%s", o.who, o.keys[0])
			e := ref[id]
			backendHolds := e != nil && !e.deleted && now < e.stored+e.ttl
			err := c.Add(ctx, o.keys[0], values[o.vals[0]], o.ttl)
			if backendHolds != errors.Is(err, cache.ErrNotStored) || (err != nil && !errors.Is(err, cache.ErrNotStored)) {
				return fmt.Sprintf("step %d %s: returned %v although the shared backend holds an unexpired entry = %v", i, o, err, backendHolds), hits
			}
			if err == nil {
				ref[id] = &refEntry{val: o.vals[0], stored: now, ttl: o.ttl}
			}
		case "delete":
			if err := c.Delete(ctx, o.keys[0]); err != nil {
				return fmt.Sprintf("step %d %s: error %v", i, o, err), hits
			}
			if e := ref[fmt.Sprintf("%d/%s", o.who, o.keys[0])]; e != nil {
				e.deleted = true
			}
		case "get", "geterr":
			var got map[string][]byte
			if o.kind == "get" {
				got = c.GetMulti(ctx, o.keys, ropts...)
			} else {
				var err error
				got, err = c.GetMultiWithError(ctx, o.keys, ropts...)
				if err != nil {
					return fmt.Sprintf("step %d %s: error %v", i, o, err), hits
				}
			}
			for k, v := range got {
				requested := false
				for _, rk := range o.keys {
					if rk == k {
						requested = true
					}
				}
				if !requested {
					return fmt.Sprintf("step %d %s: returned key %q that was not asked for", i, o, k), hits
				}
				e := ref[fmt.Sprintf("%d/%s", o.who, k)]
				switch {
				case e == nil:
					return fmt.Sprintf("step %d %s: returned %q for key %q which this client never stored under this version", i, o, v, k), hits
				case e.deleted:
					return fmt.Sprintf("step %d %s: returned %q for key %q after its deletion", i, o, v, k), hits
				case !bytes.Equal(v, values[e.val]):
					return fmt.Sprintf("step %d %s: key %q returned %q, the most recently stored value is %s=%q", i, o, k, v, e.val, values[e.val]), hits
				}
				// serve-until = the later of the entry's TTL and (latest read made while the backend entry was alive) + in-memory
				// retention: only such a read can have back-filled the in-memory layer; a read served from memory alone renews nothing
				limit := e.stored + e.ttl
				if hasLRU && e.extended > limit {
					limit = e.extended
				}
				if now >= limit {
					return fmt.Sprintf("step %d %s: key %q (stored at +%v ttl %v, last read while the backend entry was alive at +%v) still served at +%v, beyond the later of its TTL and that read + in-memory retention %v", i, o, k, e.stored, e.ttl, e.extended-lruDefaultTTL, now, lruDefaultTTL), hits
				}
				if hasLRU && now < e.stored+e.ttl && now+lruDefaultTTL > e.extended {
					e.extended = now + lruDefaultTTL
				}
				hits++
			}
		}
	}
	return "", hits
}

func TestC19Wrappers(t *testing.T) {
	rep := ev.NewReport("C19", "wrappers")
	depth := 4
	if ev.Thorough() {
		depth = 5
	}
	cfgs := stacks()
	a1, a2, a3, a4 := alphabet(1), alphabet(2), alphabetPrepop(), alphabetAlloc()
	rep.Bound = fmt.Sprintf("%d stack configurations (every ordering of every non-empty subset of {in-memory LRU (size 1 and 2, default retention 3s), versioned, snappy} over the in-process backend, plus two clients with versions 1 and 11 sharing one backend, plus stacks whose backend was pre-populated by another process running the same stack — those two steps deeper over a 13-operation alphabet (the other process writes first only), plus the 8 orderings of {LRU, snappy} and {LRU, versioned, snappy} read with a caller-side recycling Allocator — one step deeper over an 11-operation alphabet whose values include one that is itself a well-formed snappy stream); every operation sequence of length <= %d (thorough: that depth for the stacks of an in-memory layer with at most one more wrapper, one less for the others) over %d operations (%d for the shared configuration): set/add/async/multi sets with values {x, y, two different 40-byte incompressible values (also in one batch), empty, 40 zero bytes} and TTL 0/1s/5s on keys {a, \"1@a\"}, get-multi, delete, clock advance 2/4/6 s", len(cfgs), depth, len(a1), len(a2))
	rep.Rule = "each sequence replayed on a fresh real stack (virtual clock for the in-memory layer, Advance for the backend) against a map-with-expiry reference: a read returns only requested keys, only the most recently stored value of that client/version byte for byte, never after deletion, never beyond the later of its TTL and (latest read made while the backend entry was alive) + in-memory retention; Add fails iff the backend holds an unexpired entry; distinct_nontrivial = sequences with at least one cache hit"
	deadline := ev.Deadline(8 * time.Minute)
	type job struct {
		cfg stackCfg
		alp []op
	}
	var wg sync.WaitGroup
	jobs := make(chan [2]int, 64)
	var mu sync.Mutex
	stopped := false
	for w := 0; w < runtime.GOMAXPROCS(0); w++ {
		wg.Add(1)
		go func() {
			defer wg.Done()
			// each worker owns a bubble: its time.Sleep advances its own virtual clock at once
			synctest.Test(t, func(t *testing.T) {
				for jb := range jobs {
					cfg := cfgs[jb[0]]
					alp := a1
					depth := depth
					if cfg.shared {
						alp = a2
					}
					if cfg.prepop {
						alp = a3
						depth += 2
					}
					if cfg.alloc {
						alp = a4
						depth++
					}
					if ev.Thorough() && !cfg.prepop && !cfg.alloc && !(len(cfg.layers) <= 2 && !cfg.shared && strings.Contains(strings.Join(cfg.layers, ","), "lru")) {
						depth-- // thorough: the extra step only where an in-memory layer with at most one more wrapper makes the history matter most
					}
					first := jb[1]
					// all sequences starting with operation `first`
					var evals, hitSeqs int64
					seq := make([]op, 0, depth)
					var rec func()
					rec = func() {
						if len(seq) > 0 {
							v, hits := run(cfg, seq)
							evals++
							if hits > 0 {
								hitSeqs++
							}
							if v != "" {
								var names []string
								for _, o := range seq {
									names = append(names, o.String())
								}
								rep.Violate("C19:"+cfg.name+":"+strings.Join(names, ";"), fmt.Sprintf("stack %s, sequence [%s]: %s", cfg.name, strings.Join(names, " ; "), v), map[string]any{"stack": cfg.name, "sequence": names})
							}
						}
						if len(seq) == depth {
							return
						}
						for _, o := range alp {
							if len(seq) == 0 && o.String() != alp[first].String() {
								continue
							}
							if cfg.prepop && o.who == 1 && len(seq) > 0 {
								continue // the other process writes only before the client under test starts
							}
							seq = append(seq, o)
							rec()
							seq = seq[:len(seq)-1]
						}
					}
					if !(ev.WallNow().After(deadline) || rep.NumViolations() >= 10) {
						rec()
					} else {
						mu.Lock()
						stopped = true
						mu.Unlock()
					}
					rep.Eval(evals)
					rep.Trans(evals)
					rep.State(hitSeqs)
					mu.Lock()
					rep.Add("sequences_with_hits", hitSeqs)
					mu.Unlock()
				}
			})
		}()
	}
	for ci, cfg := range cfgs {
		n := len(a1)
		if cfg.shared {
			n = len(a2)
		}
		if cfg.prepop {
			n = len(a3)
		}
		if cfg.alloc {
			n = len(a4)
		}
		for f := 0; f < n; f++ {
			jobs <- [2]int{ci, f}
		}
	}
	close(jobs)
	wg.Wait()
	if stopped {
		rep.NotExhaustive("deadline or violation cap")
	}
	for _, c := range cfgs {
		rep.Distinct(c.name)
	}
	rep.Sample("stack lru>versioned>snappy(lru=1): [c0.set([a]=[x],5s) ; advance(4s) ; c0.get[a] ; advance(2s)]")
	rep.Trace(rep.Evaluations)
	if err := rep.Write(); err != nil {
		t.Fatal(err)
	}
}

func TestC19JumpHash(t *testing.T) {
	rep := ev.NewReport("C19", "jump-hash")
	const nKeys = 4096
	rep.Bound = "server lists 10.0.0.i:11211 for i=1..n, n=1..64, handed to SetServers in reversed and in rotated order; 4096 fixed keys; plus every history of 3 non-empty subsets of 6 servers handed to ONE selector in turn"
	rep.Rule = "PickServer is a function of (key, naturally sorted list): argument order is irrelevant and the pick is the list element at the jump-hash index; growing the list by one server at its end moves a key only to the new server; after any history of lists a selector lists and picks like a fresh one given the last list; distinct_nontrivial = (n, key) pairs whose server changed when the list grew"
	keys := make([]string, nKeys)
	for i := range keys {
		keys[i] = fmt.Sprintf("key-%d-%x", i, i*2654435761)
	}
	prev := make([]string, nKeys)
	for n := 1; n <= 64; n++ {
		var servers []string
		for i := 1; i <= n; i++ {
			servers = append(servers, fmt.Sprintf("10.0.0.%d:11211", i))
		}
		rev := make([]string, n)
		rot := make([]string, n)
		for i := range servers {
			rev[n-1-i] = servers[i]
			rot[(i+n/2)%n] = servers[i]
		}
		var sa, sb cache.MemcachedJumpHashSelector
		if err := sa.SetServers(rev...); err != nil {
			t.Fatal(err)
		}
		if err := sb.SetServers(rot...); err != nil {
			t.Fatal(err)
		}
		sortedIdx := map[string]int{}
		for i, s := range servers {
			sortedIdx[s] = i
		}
		for ki, k := range keys {
			a, err1 := sa.PickServer(k)
			b, err2 := sb.PickServer(k)
			rep.Eval(1)
			rep.Trans(1)
			if err1 != nil || err2 != nil {
				rep.Violate(fmt.Sprintf("jump:err:%d", n), fmt.Sprintf("n=%d key %s: errors %v %v", n, k, err1, err2), nil)
				continue
			}
			if a.String() != b.String() {
				rep.Violate(fmt.Sprintf("jump:order:%d:%s", n, k), fmt.Sprintf("n=%d key %s: pick depends on the order servers were given: %s vs %s", n, k, a, b), nil)
			}
			if _, ok := sortedIdx[a.String()]; !ok {
				rep.Violate(fmt.Sprintf("jump:range:%d:%s", n, k), fmt.Sprintf("n=%d key %s: picked %s which is not in the list", n, k, a), nil)
			}
			if n > 1 && prev[ki] != a.String() {
				if a.String() != servers[n-1] {
					rep.Violate(fmt.Sprintf("jump:move:%d:%s", n, k), fmt.Sprintf("growing the list from %d to %d servers moved key %s from %s to %s, not to the new server %s", n-1, n, k, prev[ki], a, servers[n-1]), nil)
				}
				rep.Distinct(fmt.Sprintf("%d/%d", n, ki))
			}
			prev[ki] = a.String()
		}
		rep.State(1)
	}
	rep.Sample("n=10: servers sorted naturally 10.0.0.1 … 10.0.0.10 (not 10.0.0.1, 10.0.0.10, 10.0.0.2)")
	// natural order: with n=10 the last element must be 10.0.0.10
	var s cache.MemcachedJumpHashSelector
	var list []string
	for i := 10; i >= 1; i-- {
		list = append(list, fmt.Sprintf("10.0.0.%d:11211", i))
	}
	_ = s.SetServers(list...)
	var order []string
	_ = s.Each(func(a net.Addr) error { order = append(order, a.String()); return nil })
	for i, a := range order {
		if want := fmt.Sprintf("10.0.0.%d:11211", i+1); a != want {
			rep.Violate("jump:natsort", fmt.Sprintf("server list is not naturally sorted: position %d holds %s, want %s (%v)", i, a, want, order), nil)
			break
		}
	}
	// One selector over a history of server lists (the DNS provider calls SetServers on every resolution): after any
	// sequence of lists the selector must behave like a fresh one given the last list only.
	univ := []string{"10.0.0.1:11211", "10.0.0.2:11211", "10.0.0.3:11211", "10.0.0.10:11211", "10.0.0.4:11211", "10.0.0.20:11211"}
	depth := 3
	nSub := 1<<len(univ) - 1
	subset := func(m int, reversed bool) []string {
		var l []string
		for i, u := range univ {
			if m&(1<<i) != 0 {
				l = append(l, u)
			}
		}
		if reversed {
			slices.Reverse(l)
		}
		return l
	}
	describe := func(sel *cache.MemcachedJumpHashSelector) string {
		var sb strings.Builder
		_ = sel.Each(func(a net.Addr) error { sb.WriteString(a.String() + " "); return nil })
		sb.WriteString("|")
		for _, k := range keys[:48] {
			a, err := sel.PickServer(k)
			if err != nil {
				sb.WriteString("err ")
			} else {
				sb.WriteString(a.String()[7:] + " ")
			}
		}
		return sb.String()
	}
	fresh := make([]string, nSub+1)
	for m := 1; m <= nSub; m++ {
		var f cache.MemcachedJumpHashSelector
		_ = f.SetServers(subset(m, false)...)
		fresh[m] = describe(&f)
	}
	total := 1
	for i := 0; i < depth; i++ {
		total *= nSub
	}
	hist := make([]int, depth)
	for ix := 0; ix < total && rep.NumViolations() < 20; ix++ {
		x := ix
		for i := range hist {
			hist[i] = x%nSub + 1
			x /= nSub
		}
		var sel cache.MemcachedJumpHashSelector
		for i, m := range hist {
			if err := sel.SetServers(subset(m, i%2 == 1)...); err != nil {
				t.Fatal(err)
			}
		}
		rep.Eval(1)
		rep.Trans(int64(depth))
		if got := describe(&sel); got != fresh[hist[depth-1]] {
			var hs []string
			for i, m := range hist {
				hs = append(hs, fmt.Sprint(subset(m, i%2 == 1)))
			}
			rep.Violate("jump:history:"+fmt.Sprint(hist), fmt.Sprintf("one selector given the lists %s in turn: server order | picks for 48 keys = %s, a fresh selector given the last list: %s", strings.Join(hs, " then "), got, fresh[hist[depth-1]]), nil)
		}
	}
	rep.State(int64(nSub))
	rep.Trace(rep.Evaluations)
	if err := rep.Write(); err != nil {
		t.Fatal(err)
	}
}
