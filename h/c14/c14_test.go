// C14 — reported token ranges coincide with key ownership and tile the key space.
// Engine E1: every token→owner assignment over a boundary token alphabet, real
// GetTokenRangesForInstance / GetTokenRangesForPartition vs real Get / ActivePartitionForKey,
// plus structural (sorted, paired, disjoint) and tiling checks.
package c14

import (
	"fmt"
	"sort"
	"strings"
	"testing"
	"time"

	"github.com/go-kit/log"
	"github.com/grafana/dskit/ring"

	"verif/enum"
	"verif/ev"
	"verif/pre"
)

const M = ^uint32(0)

var tokAlpha = []uint32{0, 1, 2, M - 2, M - 1, M}

func init() {
	if ev.Thorough() {
		// two mid-range tokens more: assignments in which the boundary tokens are not neighbours on the circle
		tokAlpha = []uint32{0, 1, 2, 1 << 31, 1<<31 + 1, M - 2, M - 1, M}
	}
}

func keys() []uint32 {
	set := map[uint32]bool{0: true, M: true, 1 << 31: true}
	for _, t := range tokAlpha {
		set[t-1], set[t], set[t+1] = true, true, true
	}
	out := make([]uint32, 0, len(set))
	for k := range set {
		out = append(out, k)
	}
	sort.Slice(out, func(i, j int) bool { return out[i] < out[j] })
	return out
}

// zone layouts: owner index -> zone. RF = number of distinct zones.
var layouts = [][]string{
	{"a"}, {"a", "a"}, {"a", "a", "a"},
	{"a", "b"}, {"a", "a", "b"}, {"a", "b", "b"},
	{"a", "b", "c"}, {"a", "a", "b", "c"},
}

func structural(tr ring.TokenRanges) string {
	if len(tr)%2 != 0 {
		return fmt.Sprintf("odd length %v", tr)
	}
	for i := 0; i+1 < len(tr); i += 2 {
		if tr[i] > tr[i+1] {
			return fmt.Sprintf("start > end in %v", tr)
		}
		if i+2 < len(tr) && tr[i+1] >= tr[i+2] {
			return fmt.Sprintf("ranges overlap or unsorted in %v", tr)
		}
	}
	return ""
}

// independent IncludesKey: linear scan over [start,end] pairs
func includes(tr ring.TokenRanges, k uint32) bool {
	for i := 0; i+1 < len(tr); i += 2 {
		if tr[i] <= k && k <= tr[i+1] {
			return true
		}
	}
	return false
}

type assign struct {
	layout []string
	tokens [][]uint32 // per owner
}

func (a assign) String() string {
	var sb strings.Builder
	for i, z := range a.layout {
		fmt.Fprintf(&sb, "i%d[z=%s t=%v] ", i, z, a.tokens[i])
	}
	return sb.String()
}

func decodeAssign(layout []string, idx int, maxTok int) (assign, bool) {
	n := len(layout)
	a := assign{layout: layout, tokens: make([][]uint32, n)}
	for _, t := range tokAlpha {
		o := idx % (n + 1)
		idx /= n + 1
		if o == 0 {
			continue
		}
		if len(a.tokens[o-1]) >= maxTok {
			return a, false
		}
		a.tokens[o-1] = append(a.tokens[o-1], t)
	}
	return a, true
}

func pow(b, e int) int {
	r := 1
	for ; e > 0; e-- {
		r *= b
	}
	return r
}

func TestC14Instances(t *testing.T) {
	rep := ev.NewReport("C14", "instance-ranges")
	rep.Bound = fmt.Sprintf("token alphabet %v; zone layouts %v (RF = #zones, zone-aware); every token→owner assignment with <=3 tokens per owner (owners may be token-less); all instances ACTIVE and healthy; keys t-1,t,t+1 for all alphabet tokens + 0, M, 2^31", tokAlpha, layouts)
	rep.Rule = "for every assignment, instance and key: real TokenRanges.IncludesKey == (instance ∈ real Get(key, Write)); ranges sorted/paired/disjoint; per zone every key in exactly one instance's ranges; distinct_nontrivial = assignments in which some instance owns a wrap-around or origin-adjacent range (token 0, 1 or M present)"
	deadline := ev.Deadline(10 * time.Minute)
	ks := keys()
	enum.Frozen(t, func() {
		now := time.Now()
		for li, layout := range layouts {
			count := pow(len(layout)+1, len(tokAlpha))
			zones := map[string]bool{}
			for _, z := range layout {
				zones[z] = true
			}
			rf := len(zones)
			ok := enum.Par(count, deadline, func() bool { return rep.NumViolations() >= 20 }, func(idx int) {
				a, valid := decodeAssign(layout, idx, 3)
				if !valid {
					return
				}
				d := ring.NewDesc()
				for i, z := range a.layout {
					id := fmt.Sprintf("i%d", i)
					d.Ingesters[id] = ring.InstanceDesc{Id: id, Addr: id, Zone: z, State: ring.ACTIVE, Timestamp: now.Unix(), Tokens: append([]uint32(nil), a.tokens[i]...), RegisteredTimestamp: now.Unix()}
				}
				cfg := ring.Config{HeartbeatTimeout: time.Minute, ReplicationFactor: rf, ZoneAwarenessEnabled: true, SubringCacheDisabled: true}
				r, err := ring.NewWithStoreClientAndStrategy(cfg, "c14", "k", nil, ring.NewDefaultReplicationStrategy(), nil, log.NewNopLogger())
				if err != nil {
					panic(err)
				}
				pre.Install(r, d, now) // on top of earlier versions of itself (see package pre)
				rep.State(1)
				viol := func(kind, what string) {
					rep.Violate(fmt.Sprintf("inst:%s:%s", kind, a.String()), fmt.Sprintf("ring %s(RF=%d): %s", a.String(), rf, what), map[string]any{"layout": li, "idx": idx})
				}
				// zone has tokens?
				zoneHasTok := map[string]bool{}
				for i, z := range a.layout {
					if len(a.tokens[i]) > 0 {
						zoneHasTok[z] = true
					}
				}
				ranges := make([]ring.TokenRanges, len(a.layout))
				rangeOK := make([]bool, len(a.layout))
				for i := range a.layout {
					var tr ring.TokenRanges
					var err error
					func() {
						defer func() {
							if p := recover(); p != nil {
								err = fmt.Errorf("PANIC %v", p)
							}
						}()
						tr, err = r.GetTokenRangesForInstance(fmt.Sprintf("i%d", i))
					}()
					rep.Eval(1)
					if err != nil {
						if strings.HasPrefix(err.Error(), "PANIC") {
							viol("panic", err.Error())
						} else if zoneHasTok[a.layout[i]] {
							viol("err", fmt.Sprintf("GetTokenRangesForInstance(i%d) failed although its zone has tokens: %v", i, err))
						}
						continue
					}
					if s := structural(tr); s != "" {
						viol("struct", fmt.Sprintf("i%d: %s", i, s))
					}
					ranges[i], rangeOK[i] = tr, true
				}
				special := false
				for _, ts := range a.tokens {
					for _, tk := range ts {
						if tk == 0 || tk == 1 || tk == M {
							special = true
						}
					}
				}
				if special {
					rep.Distinct(fmt.Sprintf("%d/%d", li, idx))
				}
				for _, k := range ks {
					rs, err := r.Get(k, ring.Write, nil, nil, nil)
					rep.Eval(1)
					if err != nil {
						rep.Add("get_errors_skipped", 1)
						continue // some zone has no tokens: lookup has no quorum; nothing to compare
					}
					owner := map[string]bool{}
					for _, in := range rs.Instances {
						owner[in.Id] = true
					}
					perZone := map[string]int{}
					for i, z := range a.layout {
						if !rangeOK[i] {
							continue
						}
						id := fmt.Sprintf("i%d", i)
						inc := ranges[i].IncludesKey(k)
						if inc != includes(ranges[i], k) {
							viol("includes", fmt.Sprintf("IncludesKey(%d) on %v = %v, linear scan says %v", k, ranges[i], inc, !inc))
						}
						if inc != owner[id] {
							viol("own", fmt.Sprintf("key %d: ranges of %s %v include=%v but Get(Write) owners=%v", k, id, ranges[i], inc, ids(rs)))
						}
						if inc {
							perZone[z]++
						}
						rep.Trans(1)
					}
					for z := range zones {
						if zoneHasTok[z] && perZone[z] != 1 {
							viol("tile", fmt.Sprintf("key %d is in the ranges of %d instances of zone %s (want exactly 1)", k, perZone[z], z))
						}
					}
				}
				if idx%977 == 0 {
					rep.Sample(a.String())
				}
			})
			if !ok {
				rep.NotExhaustive("deadline or violation cap")
				break
			}
		}
	})
	rep.Trace(rep.Transitions)
	if err := rep.Write(); err != nil {
		t.Fatal(err)
	}
}

func ids(rs ring.ReplicationSet) []string {
	var out []string
	for _, i := range rs.Instances {
		out = append(out, i.Id)
	}
	sort.Strings(out)
	return out
}

func TestC14Partitions(t *testing.T) {
	rep := ev.NewReport("C14", "partition-ranges")
	rep.Bound = fmt.Sprintf("token alphabet %v; 1..3 partitions (all ACTIVE) with <=3 tokens each, every token→partition assignment; keys as for instances", tokAlpha)
	rep.Rule = "for every assignment, partition and key: real GetTokenRangesForPartition(p).IncludesKey(k) == (real ActivePartitionForKey(k) == p); structure and tiling; distinct_nontrivial = assignments containing token 0, 1 or M"
	deadline := ev.Deadline(10 * time.Minute)
	ks := keys()
	for n := 1; n <= 3; n++ {
		count := pow(n+1, len(tokAlpha))
		layout := make([]string, n)
		ok := enum.Par(count, deadline, func() bool { return rep.NumViolations() >= 20 }, func(idx int) {
			a, valid := decodeAssign(layout, idx, 3)
			if !valid {
				return
			}
			desc := ring.NewPartitionRingDesc()
			anyTok := false
			for i := 0; i < n; i++ {
				toks := append([]uint32(nil), a.tokens[i]...)
				desc.Partitions[int32(i)] = ring.PartitionDesc{Id: int32(i), Tokens: toks, State: ring.PartitionActive, StateTimestamp: 1}
				if len(toks) > 0 {
					anyTok = true
				}
			}
			pr, err := ring.NewPartitionRing(*desc)
			if err != nil {
				rep.Violate("part:new:"+a.String(), fmt.Sprintf("NewPartitionRing(%s): %v", a.String(), err), map[string]any{"n": n, "idx": idx})
				return
			}
			rep.State(1)
			viol := func(kind, what string) {
				rep.Violate(fmt.Sprintf("part:%s:%s", kind, a.String()), fmt.Sprintf("partition ring %s: %s", a.String(), what), map[string]any{"n": n, "idx": idx})
			}
			ranges := make([]ring.TokenRanges, n)
			rok := make([]bool, n)
			for i := 0; i < n; i++ {
				var tr ring.TokenRanges
				var err error
				func() {
					defer func() {
						if p := recover(); p != nil {
							err = fmt.Errorf("PANIC %v", p)
						}
					}()
					tr, err = pr.GetTokenRangesForPartition(int32(i))
				}()
				rep.Eval(1)
				if err != nil {
					viol("err", fmt.Sprintf("GetTokenRangesForPartition(%d): %v", i, err))
					continue
				}
				if s := structural(tr); s != "" {
					viol("struct", fmt.Sprintf("partition %d: %s", i, s))
				}
				ranges[i], rok[i] = tr, true
			}
			sp := false
			for _, ts := range a.tokens {
				for _, tk := range ts {
					if tk == 0 || tk == 1 || tk == M {
						sp = true
					}
				}
			}
			if sp {
				rep.Distinct(fmt.Sprintf("%d/%d", n, idx))
			}
			for _, k := range ks {
				p, err := pr.ActivePartitionForKey(k)
				rep.Eval(1)
				if err != nil {
					if anyTok {
						viol("route", fmt.Sprintf("ActivePartitionForKey(%d): %v although an active partition has tokens", k, err))
					}
					continue
				}
				cnt := 0
				for i := 0; i < n; i++ {
					if !rok[i] {
						continue
					}
					inc := ranges[i].IncludesKey(k)
					if inc != includes(ranges[i], k) {
						viol("includes", fmt.Sprintf("IncludesKey(%d) on %v = %v, linear scan says %v", k, ranges[i], inc, !inc))
					}
					if inc != (p == int32(i)) {
						viol("own", fmt.Sprintf("key %d routes to partition %d but ranges of partition %d = %v (include=%v)", k, p, i, ranges[i], inc))
					}
					if inc {
						cnt++
					}
					rep.Trans(1)
				}
				if cnt != 1 {
					viol("tile", fmt.Sprintf("key %d is in the ranges of %d partitions", k, cnt))
				}
			}
			if idx%499 == 0 {
				rep.Sample(a.String())
			}
		})
		if !ok {
			rep.NotExhaustive("deadline or violation cap")
			break
		}
	}
	rep.Trace(rep.Transitions)
	if err := rep.Write(); err != nil {
		t.Fatal(err)
	}
}
