// Package pre builds the ring contents a long-lived ring client may have seen BEFORE the one under test.
// Lookups must be a function of the current content alone; a client that keeps something from an earlier
// install (a token index, a per-token zone or state, a counter, a cached shard) answers wrongly only on such
// histories, never when it is built from the descriptor directly. The small-scope checks of the lookup
// properties (C01, C02, C12, C14) therefore install every ring on top of these variants of itself.
package pre

import (
	"sort"
	"time"

	"github.com/grafana/dskit/ring"
)

// Variants returns, for descriptor d, in installation order:
//  1. the same zones, every instance holding the tokens of its successor (same token set, other owners);
//  2. the same tokens per instance, every instance moved to the zone of its successor (same token owners, other zones);
//  3. the same instances, tokens and zones, all ACTIVE, writable, with a fresh heartbeat (the update to d is then a
//     state-only one: the client keeps its token index).
//
// Nothing is shared with d itself.
func Variants(d *ring.Desc, now time.Time) []*ring.Desc {
	ids := make([]string, 0, len(d.Ingesters))
	for id := range d.Ingesters {
		ids = append(ids, id)
	}
	sort.Strings(ids)
	// Variants 2 and 3 share their token slices with each other (never with d): that is how successive values of a
	// gossip store and clones made by a lifecycler look (Desc.Clone is shallow), and a client may treat "same storage"
	// as "same registration".
	shared := map[string][]uint32{}
	for _, id := range ids {
		shared[id] = append([]uint32(nil), d.Ingesters[id].Tokens...)
	}
	clone := func(edit func(i int, in *ring.InstanceDesc)) *ring.Desc {
		o := ring.NewDesc()
		for i, id := range ids {
			in := d.Ingesters[id]
			in.Tokens = shared[id]
			edit(i, &in)
			o.Ingesters[id] = in
		}
		return o
	}
	succ := func(i int) ring.InstanceDesc { return d.Ingesters[ids[(i+1)%len(ids)]] }
	if len(ids) == 0 {
		return nil
	}
	// Order matters: what is installed LAST before d decides which shortcut the client may take for d. The all-ACTIVE
	// variant comes last (d is then a state-only update), the zone relabel before it (the step to the all-ACTIVE variant
	// keeps the token owners and changes only zones), the token shift first.
	return []*ring.Desc{
		clone(func(i int, in *ring.InstanceDesc) { in.Tokens = append([]uint32(nil), succ(i).Tokens...) }),
		clone(func(i int, in *ring.InstanceDesc) { in.Zone = succ(i).Zone }),
		clone(func(i int, in *ring.InstanceDesc) {
			in.State, in.Timestamp = ring.ACTIVE, now.Unix()
			in.ReadOnly, in.ReadOnlyUpdatedTimestamp = false, 0
		}),
	}
}

// Install feeds the variants and then d itself to the client. After every variant the client is queried through
// each kind of lookup, so that whatever it memoises per content (shards, token ranges, replica sets) has been
// filled from the earlier content when d arrives.
func Install(r *ring.Ring, d *ring.Desc, now time.Time) {
	for _, v := range Variants(d, now) {
		r.VerifUpdateRingState(v)
		warm(r, v)
	}
	r.VerifUpdateRingState(d)
}

func warm(r *ring.Ring, v *ring.Desc) {
	defer func() { _ = recover() }() // answers (and failures) on the earlier content are not what is being judged
	for id := range v.Ingesters {
		_, _ = r.GetTokenRangesForInstance(id)
		_, _ = r.GetInstanceState(id)
	}
	for _, k := range []uint32{0, 1, 1 << 31, 1<<32 - 1} {
		_, _ = r.Get(k, ring.Write, nil, nil, nil)
		_, _ = r.Get(k, ring.Read, nil, nil, nil)
	}
	_, _ = r.GetReplicationSetForOperation(ring.Read)
	_, _ = r.GetAllHealthy(ring.Reporting)
	for _, size := range []int{1, 2} {
		_ = r.ShuffleShard("tenant-a", size)
		_ = r.ShuffleShardWithLookback("tenant-a", size, time.Hour, time.Now())
	}
	_ = r.InstancesCount()
	_ = r.ZonesCount()
}
