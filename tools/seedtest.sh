#!/bin/bash
# usage: seedtest.sh <seed-dir-name> <check-id> [tier]  — apply seeded/<name>/patch.diff to /repo, run the check, undo.
N=$1; C=$2; T=${3:-quick}
# SEED_REPO (default /repo): the tree the patch is applied to; a scratch worktree keeps /repo free for other runs
R=${SEED_REPO:-/repo}
cd /verif
[ -z "$(git -C $R status --porcelain)" ] || { echo "$R not clean"; exit 2; }
git -C $R apply /verif/seeded/$N/patch.diff || exit 2
VERIF_REPO=$R ./check $C $T > /tmp/seedtest-$N-$C.log 2>&1; RC=$?
git -C $R checkout -- .
echo "seed=$N check=$C tier=$T exit=$RC $(grep -c '^VIOLATION' /tmp/seedtest-$N-$C.log) violation lines; $(grep -m1 'what:' /tmp/seedtest-$N-$C.log | cut -c1-300)"
tail -1 /tmp/seedtest-$N-$C.log
