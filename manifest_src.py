HOOK_COMMITS = []  # filled by gen (git log of /repo commits whose subject starts with "verif hook")
ENGINES = [
 {"name": "enum", "path": "h/enum", "serves_properties": ["C01", "C02", "C03", "C14"], "kind_free_text": "E1: small-scope exhaustive enumeration of inputs / operation sequences on the real functions against an independent reference model"},
]
ALL = ["C%02d" % i for i in range(1, 21)]
CLAIMS = [
 {"id": "C01", "engine": "enum", "design_ref": "DESIGN.md §4 C01",
  "technique": "explicit-state small-scope enumeration: every ring descriptor of a bounded universe × boundary keys × ops × RF × zone-awareness on the real Ring.Get vs an independent linear-scan reference",
  "text": "Exhaustive within the stated bound: every descriptor (1..3 instances quick / 1..4 thorough, 0..2 tokens each from {0,1,7,2^32-2,2^32-1}, 3 zones incl. none, 5-6 health classes incl. the exact heartbeat-timeout boundary) × RF × zone-awareness × 4 ops × every boundary key × 3 buffer variants is looked up on the real ring client and compared with a reference that shares no code with it. Beyond unit tests: all boundary classes and all small rings, not a few random 128-token rings.",
  "note": "Bound: rings above 4 instances / 2 tokens per instance and RF above 5 are not explored; keys are one representative per gap/token (argued complete because code and spec see keys only via comparisons). Ring fed through the verif hook VerifUpdateRingState (same code path as the KV watch callback)."},
 {"id": "C14", "engine": "enum", "design_ref": "DESIGN.md §4 C14",
  "technique": "explicit-state small-scope enumeration: every token→owner assignment over the boundary token alphabet {0,1,2,2^32-3..2^32-1}; reported ranges vs the real lookup for every boundary key",
  "text": "Exhaustive within the bound: all assignments of the 6 alphabet tokens to up to 3-4 instances in 8 zone layouts (RF = #zones = 1..3) and to 1..3 partitions (<=3 tokens per owner, token-less owners included); for every owner and each of 15 boundary keys IncludesKey(ranges) must equal membership in the real Get / ActivePartitionForKey answer; ranges must be sorted, paired, disjoint and tile each zone / the partition ring.",
  "note": "Bound: token alphabet of 6 values, <=3 tokens per owner; all instances ACTIVE and healthy, all partitions active (as the property states); random large rings not run (different technique)."},
 {"id": "C02", "engine": "enum", "design_ref": "DESIGN.md §4 C02",
  "technique": "explicit-state small-scope enumeration of rings; for each, ALL minimal acknowledging write subsets × ALL minimal answering read subsets (instances or whole zones) from the real lookups must intersect",
  "text": "Exhaustive within the bound: rings of 1..5 (thorough 6) single-token instances, every vector of 5 health classes, every zone assignment up to renaming (<=5 zones, so zones <,=,> RF), RF 1..4 (5), zone-awareness on/off, every start position. The write set and MaxErrors come from the real Get(key,Write), the read set and MaxErrors/MaxUnavailableZones from the real GetReplicationSetForOperation(Read); every pair of minimal successful subsets is enumerated.",
  "note": "Success criteria of the executors (len-MaxErrors acks; len-MaxErrors results or all instances of zones-MaxUnavailableZones zones) are taken from C10/C11, where they are checked against the real DoBatch / DoUntilQuorum. One token per instance (token placement only selects the write set, all start positions are enumerated)."},
 {"id": "C03", "engine": "enum", "design_ref": "DESIGN.md §4 C03",
  "technique": "explicit-state small-scope enumeration: all pairs, triples and 4-step delivery histories (orders, regroupings, duplicates, forwarded deltas) over a descriptor universe, real Merge vs last-writer-wins reference",
  "text": "Exhaustive within the bound: instance ring — all triples over 49 (thorough 343) descriptors built from 2 content tables (each (id,timestamp) one content; unsorted/duplicated/empty token lists; LEFT tombstones carrying tokens), and all 4-sequences (start state + 3 updates, 4 delivery forms); partition ring — all triples over 65 (325) descriptors with independent state and lock registers and owner tombstones, all pairs over 845 (4225). Checked on the real Merge(other,false): idempotence, commutativity, associativity, delta sufficiency (also into A⊔X), nil change ⇒ unchanged, normal form, newer timestamp wins, removal wins ties.",
  "note": "Proviso of the property enforced by construction (one content per (entry,timestamp), disjoint tokens). Random larger descriptors are not run. Merge(…, localCAS=true) is deliberately non-commutative and is exercised in C04/C05/C06 instead."},
]
NOT_APPLICABLE = [{"property_id": p, "reason": "check not built yet in this session (planned, see DESIGN.md §4); not a limit of the technique"} for p in ALL if p not in [c["id"] for c in CLAIMS]]
import subprocess
try:
    out = subprocess.run(["git", "-C", "/repo", "log", "--format=%H %s"], capture_output=True, text=True).stdout
    HOOK_COMMITS = [l.split()[0] for l in out.splitlines() if " verif hook" in l]
except Exception:
    pass
