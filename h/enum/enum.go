// Package enum holds helpers for small-scope exhaustive enumeration (engine E1).
package enum

import (
	"runtime"
	"sync"
	"sync/atomic"
	"testing"
	"testing/synctest"
	"time"

	"verif/ev"
)

// Frozen runs f inside one synctest bubble: time.Now() is constant (2000-01-01 00:00:00 UTC)
// for the whole enumeration unless f itself sleeps, so heartbeat ages are exact.
func Frozen(t *testing.T, f func()) {
	synctest.Test(t, func(*testing.T) { f() })
}

// Par calls f(i) for every i in [0,n) belonging to this worker's shard, on all CPUs.
// It stops early (returning false) when the deadline passes or stop() is true.
func Par(n int, deadline time.Time, stop func() bool, f func(i int)) bool {
	si, sn := ev.Shard()
	var next int64 = int64(si)
	var aborted atomic.Bool
	var wg sync.WaitGroup
	w := runtime.GOMAXPROCS(0)
	for k := 0; k < w; k++ {
		wg.Add(1)
		go func() {
			defer wg.Done()
			cnt := 0
			for {
				i := int(atomic.AddInt64(&next, int64(sn))) - sn
				if i >= n {
					return
				}
				cnt++
				if cnt&63 == 0 {
					if aborted.Load() {
						return
					}
					if wallNow().After(deadline) || (stop != nil && stop()) {
						aborted.Store(true)
						return
					}
				}
				f(i)
			}
		}()
	}
	wg.Wait()
	return !aborted.Load()
}

func wallNow() time.Time { return ev.WallNow() }

// WallNow exposes the real clock to checks running inside a bubble.
func WallNow() time.Time { return ev.WallNow() }

// Odometer enumerates all vectors v with 0 <= v[i] < radix[i]. Index <-> vector.
func Decode(idx int, radix []int, out []int) {
	for i := range radix {
		out[i] = idx % radix[i]
		idx /= radix[i]
	}
}

func Size(radix []int) int {
	n := 1
	for _, r := range radix {
		n *= r
	}
	return n
}
