// Package maporder is the seam for Go map iteration order: code under test that ranges over a
// map whose order influences behaviour is rewritten (by the overlay generator, textually, with a
// drift check) to range over Keys(m) instead. Under the controlled scheduler the order is an
// explorer choice (every permutation is enumerated); otherwise keys come sorted.
package maporder

import (
	"sort"

	"verif/sched"
)

func Keys[V any](m map[string]V) []string {
	keys := make([]string, 0, len(m))
	for k := range m {
		keys = append(keys, k)
	}
	sort.Strings(keys)
	n := len(keys)
	if n < 2 || n > 5 || !sched.On() {
		return keys
	}
	f := 1
	for i := 2; i <= n; i++ {
		f *= i
	}
	k := sched.Choose("map-order", f, false)
	out := make([]string, 0, n)
	rest := append([]string(nil), keys...)
	for i := n; i >= 1; i-- {
		f /= i
		j := k / f
		k %= f
		out = append(out, rest[j])
		rest = append(rest[:j], rest[j+1:]...)
	}
	return out
}

// Sorted returns the keys in ascending order: a seam for loops whose order is irrelevant to the code's meaning
// (e.g. spawning one goroutine per entry) but would otherwise decide which not-yet-named goroutine is which.
func Sorted[V any](m map[string]V) []string {
	keys := make([]string, 0, len(m))
	for k := range m {
		keys = append(keys, k)
	}
	sort.Strings(keys)
	return keys
}
