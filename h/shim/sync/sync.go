// Package sync is a drop-in replacement for the standard "sync" used via -overlay import
// rewriting: identical API, but every acquiring / waiting operation is a scheduling point of
// verif/sched. With the scheduler disabled the types behave like the originals.
package sync

import (
	rsync "sync"

	"verif/sched"
)

type Locker = rsync.Locker
type Pool = rsync.Pool
type Map = rsync.Map

func OnceFunc(f func()) func()                                 { return rsync.OnceFunc(f) }
func OnceValue[T any](f func() T) func() T                     { return rsync.OnceValue(f) }
func OnceValues[T1, T2 any](f func() (T1, T2)) func() (T1, T2) { return rsync.OnceValues(f) }

// ---- Mutex ----

type Mutex struct {
	st      rsync.Mutex
	held    bool
	waiters []chan struct{}
}

func (m *Mutex) free() bool {
	m.st.Lock()
	defer m.st.Unlock()
	return !m.held
}

func (m *Mutex) Lock() {
	for {
		sched.YieldUntil("Mutex.Lock", m.free)
		m.st.Lock()
		if !m.held {
			m.held = true
			m.st.Unlock()
			return
		}
		if sched.On() {
			m.st.Unlock()
			continue
		}
		ch := make(chan struct{})
		m.waiters = append(m.waiters, ch)
		m.st.Unlock()
		<-ch
	}
}

func (m *Mutex) TryLock() bool {
	sched.Yield("Mutex.TryLock")
	m.st.Lock()
	defer m.st.Unlock()
	if m.held {
		return false
	}
	m.held = true
	return true
}

func (m *Mutex) Unlock() {
	m.st.Lock()
	if !m.held {
		m.st.Unlock()
		panic("sync: unlock of unlocked mutex")
	}
	m.held = false
	ws := m.waiters
	m.waiters = nil
	m.st.Unlock()
	for _, c := range ws {
		close(c)
	}
}

// ---- RWMutex ----

type RWMutex struct {
	st      rsync.Mutex
	writer  bool
	readers int
	waiters []chan struct{}
}

func (m *RWMutex) canW() bool { m.st.Lock(); defer m.st.Unlock(); return !m.writer && m.readers == 0 }
func (m *RWMutex) canR() bool { m.st.Lock(); defer m.st.Unlock(); return !m.writer }

func (m *RWMutex) wake() {
	ws := m.waiters
	m.waiters = nil
	m.st.Unlock()
	for _, c := range ws {
		close(c)
	}
}

func (m *RWMutex) Lock() {
	for {
		sched.YieldUntil("RWMutex.Lock", m.canW)
		m.st.Lock()
		if !m.writer && m.readers == 0 {
			m.writer = true
			m.st.Unlock()
			return
		}
		if sched.On() {
			m.st.Unlock()
			continue
		}
		ch := make(chan struct{})
		m.waiters = append(m.waiters, ch)
		m.st.Unlock()
		<-ch
	}
}

func (m *RWMutex) Unlock() {
	m.st.Lock()
	if !m.writer {
		m.st.Unlock()
		panic("sync: Unlock of unlocked RWMutex")
	}
	m.writer = false
	m.wake()
}

func (m *RWMutex) RLock() {
	for {
		sched.YieldUntil("RWMutex.RLock", m.canR)
		m.st.Lock()
		if !m.writer {
			m.readers++
			m.st.Unlock()
			return
		}
		if sched.On() {
			m.st.Unlock()
			continue
		}
		ch := make(chan struct{})
		m.waiters = append(m.waiters, ch)
		m.st.Unlock()
		<-ch
	}
}

func (m *RWMutex) RUnlock() {
	m.st.Lock()
	if m.readers <= 0 {
		m.st.Unlock()
		panic("sync: RUnlock of unlocked RWMutex")
	}
	m.readers--
	m.wake()
}

func (m *RWMutex) TryLock() bool {
	sched.Yield("RWMutex.TryLock")
	m.st.Lock()
	defer m.st.Unlock()
	if m.writer || m.readers > 0 {
		return false
	}
	m.writer = true
	return true
}

func (m *RWMutex) TryRLock() bool {
	sched.Yield("RWMutex.TryRLock")
	m.st.Lock()
	defer m.st.Unlock()
	if m.writer {
		return false
	}
	m.readers++
	return true
}

type rlocker RWMutex

func (r *rlocker) Lock()   { (*RWMutex)(r).RLock() }
func (r *rlocker) Unlock() { (*RWMutex)(r).RUnlock() }

func (m *RWMutex) RLocker() Locker { return (*rlocker)(m) }

// ---- WaitGroup ----

type WaitGroup struct {
	st      rsync.Mutex
	n       int
	waiters []chan struct{}
}

func (w *WaitGroup) zero() bool { w.st.Lock(); defer w.st.Unlock(); return w.n == 0 }

func (w *WaitGroup) Add(d int) {
	w.st.Lock()
	w.n += d
	if w.n < 0 {
		w.st.Unlock()
		panic("sync: negative WaitGroup counter")
	}
	var ws []chan struct{}
	if w.n == 0 {
		ws = w.waiters
		w.waiters = nil
	}
	w.st.Unlock()
	for _, c := range ws {
		close(c)
	}
}

func (w *WaitGroup) Done() { w.Add(-1) }

func (w *WaitGroup) Go(f func()) {
	w.Add(1)
	go func() {
		defer w.Done()
		f()
	}()
}

func (w *WaitGroup) Wait() {
	for {
		sched.YieldUntil("WaitGroup.Wait", w.zero)
		w.st.Lock()
		if w.n == 0 {
			w.st.Unlock()
			return
		}
		if sched.On() {
			w.st.Unlock()
			continue
		}
		ch := make(chan struct{})
		w.waiters = append(w.waiters, ch)
		w.st.Unlock()
		<-ch
	}
}

// ---- Once ----

type Once struct {
	m    Mutex
	done bool
}

func (o *Once) Do(f func()) {
	o.m.Lock()
	defer o.m.Unlock()
	if !o.done {
		defer func() { o.done = true }()
		f()
	}
}

// ---- Cond ----

type Cond struct {
	L       Locker
	st      rsync.Mutex
	waiters []*condWaiter
}

type condWaiter struct {
	signalled bool
	ch        chan struct{}
}

func NewCond(l Locker) *Cond { return &Cond{L: l} }

func (c *Cond) Wait() {
	w := &condWaiter{ch: make(chan struct{})}
	c.st.Lock()
	c.waiters = append(c.waiters, w)
	c.st.Unlock()
	c.L.Unlock()
	if sched.On() {
		sched.YieldUntil("Cond.Wait", func() bool { c.st.Lock(); defer c.st.Unlock(); return w.signalled })
		c.st.Lock()
		s := w.signalled
		c.st.Unlock()
		if !s {
			<-w.ch
		}
	} else {
		<-w.ch
	}
	c.L.Lock()
}

func (c *Cond) Signal() {
	c.st.Lock()
	var w *condWaiter
	if len(c.waiters) > 0 {
		w = c.waiters[0]
		c.waiters = c.waiters[1:]
		w.signalled = true
	}
	c.st.Unlock()
	if w != nil {
		close(w.ch)
	}
}

func (c *Cond) Broadcast() {
	c.st.Lock()
	ws := c.waiters
	c.waiters = nil
	for _, w := range ws {
		w.signalled = true
	}
	c.st.Unlock()
	for _, w := range ws {
		close(w.ch)
	}
}
