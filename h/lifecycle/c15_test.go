package lifecycle

import (
	"context"
	"errors"
	"fmt"
	"os"
	"sort"
	"strings"
	"testing"
	"testing/synctest"
	"time"

	"github.com/go-kit/log"

	"github.com/grafana/dskit/ring"
	"github.com/grafana/dskit/services"

	"verif/ev"
	"verif/sched"
)

// C15 (state-machine half) — partition states follow legal edges, never while locked; automatic
// promotion only after enough owners have been registered long enough; only long-inactive ownerless
// partitions are deleted, never by their own lifecycler. Real PartitionInstanceLifecyclers and a real
// PartitionRingEditor share the recording store under the virtual clock.

const (
	pringKey      = "pring"
	pollEvery     = 5 * time.Second
	waitOwnersDur = 10 * time.Second
	deleteDelay   = 20 * time.Second
)

type plcSpec struct {
	id          string
	partition   int32
	multi       bool
	waitOwners  int
	removeOwner bool
	noCreate    bool
}

type paction struct {
	at   time.Duration
	kind string // state lock unlock remove-owner stop lc-state
	who  string // lifecycler id (stop, lc-state, remove-owner instance)
	part int32
	to   ring.PartitionState
	want error // expected error of an API call (nil = success or no-op)
}

type pscenario struct {
	name    string
	lcs     []plcSpec
	actions []paction
	seed    func(now time.Time) *ring.PartitionRingDesc
	horizon time.Duration
}

func pdescOf(v interface{}) *ring.PartitionRingDesc {
	d, _ := v.(*ring.PartitionRingDesc)
	if d == nil {
		return ring.NewPartitionRingDesc()
	}
	return d
}

var allowedEdge = map[[2]ring.PartitionState]bool{
	{ring.PartitionPending, ring.PartitionActive}: true, {ring.PartitionPending, ring.PartitionInactive}: true,
	{ring.PartitionActive, ring.PartitionInactive}: true, {ring.PartitionInactive, ring.PartitionActive}: true,
}

func pmonitor(sc pscenario, st *Store, t0 time.Time, apiWrites map[int]bool) (string, string) {
	own := map[string]plcSpec{}
	for _, s := range sc.lcs {
		own[s.id] = s
	}
	for wi, w := range st.Writes {
		if w.Key != pringKey || w.Writer == "seed" {
			continue
		}
		in, out := pdescOf(w.In), pdescOf(w.Out)
		at := w.At.Sub(t0)
		ownersOf := func(d *ring.PartitionRingDesc, p int32) (n int, old int) {
			for _, o := range d.Owners {
				if o.OwnedPartition == p {
					n++
					if o.UpdatedTimestamp < w.At.Add(-waitOwnersDur).Unix() {
						old++
					}
				}
			}
			return
		}
		var pids []int32
		for id := range in.Partitions {
			pids = append(pids, id)
		}
		sort.Slice(pids, func(i, j int) bool { return pids[i] < pids[j] })
		for _, id := range pids {
			a := in.Partitions[id]
			b, still := out.Partitions[id]
			if !still {
				n, _ := ownersOf(in, id)
				sp, isLC := own[w.Writer]
				switch {
				case !isLC:
					return "deleted-by-non-lifecycler", fmt.Sprintf("at +%v %s removed partition %d", at, w.Writer, id)
				case sp.partition == id:
					return "deleted-own-partition", fmt.Sprintf("at +%v lifecycler %s removed the partition %d it owns", at, w.Writer, id)
				case a.State != ring.PartitionInactive || !(a.StateTimestamp < w.At.Add(-deleteDelay).Unix()+1):
					return "deleted-too-early", fmt.Sprintf("at +%v lifecycler %s removed partition %d which was %s since %v (delay %v)", at, w.Writer, id, a.State, time.Unix(a.StateTimestamp, 0).Sub(t0), deleteDelay)
				case n != 0:
					return "deleted-with-owners", fmt.Sprintf("at +%v lifecycler %s removed partition %d which still had %d owner(s)", at, w.Writer, id, n)
				}
				continue
			}
			if a.State != b.State {
				if !allowedEdge[[2]ring.PartitionState{a.State, b.State}] {
					return "illegal-edge", fmt.Sprintf("at +%v %s changed partition %d from %s to %s", at, w.Writer, id, a.State, b.State)
				}
				if a.StateChangeLocked {
					return "changed-while-locked", fmt.Sprintf("at +%v %s changed partition %d from %s to %s although its state was locked", at, w.Writer, id, a.State, b.State)
				}
				if _, isLC := own[w.Writer]; isLC && !apiWrites[wi] && !(a.State == ring.PartitionPending && b.State == ring.PartitionActive) {
					return "unrequested-change", fmt.Sprintf("at +%v lifecycler %s changed partition %d from %s to %s on its own (the only automatic change is the promotion of a pending partition)", at, w.Writer, id, a.State, b.State)
				}
				if _, isLC := own[w.Writer]; isLC && a.State == ring.PartitionPending && b.State == ring.PartitionActive && !apiWrites[wi] {
					_, old := ownersOf(in, id)
					if old < own[w.Writer].waitOwners {
						return "promoted-too-early", fmt.Sprintf("at +%v lifecycler %s promoted partition %d to active with only %d owner(s) registered for %v (needs %d); owners %v", at, w.Writer, id, old, waitOwnersDur, own[w.Writer].waitOwners, in.Owners)
					}
				}
			}
			if fmt.Sprint(a.Tokens) != fmt.Sprint(b.Tokens) {
				return "tokens-changed", fmt.Sprintf("at +%v %s changed the tokens of partition %d", at, w.Writer, id)
			}
		}
	}
	return "", ""
}

func runC15(t *testing.T, sc pscenario, ch *sched.Chooser) (res sched.Result) {
	synctest.Test(t, func(t *testing.T) {
		e := sched.NewExec(ch)
		e.MaxSteps = 6000
		e.DelayBounded = true
		e.Quantum = quantum * 2
		t0 := time.Now()
		st := NewStore()
		st.SetCodec(pringKey, ring.GetPartitionRingCodec())
		st.Conflicts = true
		if sc.seed != nil {
			st.Put("seed", pringKey, sc.seed(t0))
		}
		lcs := map[string]*ring.PartitionInstanceLifecycler{}
		for _, sp := range sc.lcs {
			cfg := ring.PartitionInstanceLifecyclerConfig{PartitionID: sp.partition, InstanceID: sp.id, MultiPartitionOwnership: sp.multi, WaitOwnersCountOnPending: sp.waitOwners,
				WaitOwnersDurationOnPending: waitOwnersDur, DeleteInactivePartitionAfterDuration: deleteDelay, PollingInterval: pollEvery}
			l := ring.NewPartitionInstanceLifecycler(cfg, "pring", pringKey, st.Client(sp.id), log.NewNopLogger(), nil)
			l.SetRemoveOwnerOnShutdown(sp.removeOwner)
			l.SetCreatePartitionOnStartup(!sp.noCreate)
			lcs[sp.id] = l
		}
		horizon := sc.horizon
		elapsed := func() time.Duration { return time.Since(t0) }
		e.ClockOn = func() bool { return elapsed() < horizon }
		apiWrites := map[int]bool{}
		e.Enable()
		for _, sp := range sc.lcs {
			l := lcs[sp.id]
			e.Go("s-start:"+sp.id, func() { _ = l.StartAsync(context.Background()) })
		}
		for ai, a := range sc.actions {
			a := a
			etag := fmt.Sprintf("editor%d", ai) // one store identity per API call, so that writes are attributed exactly
			editor := ring.NewPartitionRingEditor(pringKey, st.Client(etag))
			e.Go(fmt.Sprintf("x%d-%s", ai, a.kind), func() {
				sched.YieldUntil("at", func() bool { return elapsed() >= a.at })
				before := len(st.Writes)
				mine := map[int]bool{} // writes performed by THIS call (another API call may run concurrently)
				var err error
				switch a.kind {
				case "state":
					err = editor.ChangePartitionState(context.Background(), a.part, a.to)
				case "lock":
					err = editor.SetPartitionStateChangeLock(context.Background(), a.part, true)
				case "unlock":
					err = editor.SetPartitionStateChangeLock(context.Background(), a.part, false)
				case "remove-owner":
					err = editor.RemoveMultiPartitionOwner(context.Background(), a.who, a.part)
				case "lc-state":
					err = lcs[a.who].ChangePartitionState(context.Background(), a.to)
					for i := before; i < len(st.Writes); i++ {
						// the lifecycler's loop may also have committed reconcile writes meanwhile: only the write
						// that performs the requested change belongs to the API call
						w := st.Writes[i]
						pi, po := pdescOf(w.In).Partitions[a.part], pdescOf(w.Out).Partitions[a.part]
						if w.Writer == a.who && po.State == a.to && pi.State != a.to {
							apiWrites[i] = true
							mine[i] = true
						}
					}
				case "stop":
					lcs[a.who].StopAsync()
				}
				if a.kind != "stop" {
					wrote := false
					for i := before; i < len(st.Writes); i++ {
						if st.Writes[i].Writer == etag || mine[i] {
							wrote = true
						}
					}
					// expected answer, from the ring version the call's function was applied to
					tag := etag
					if a.kind == "lc-state" {
						tag = a.who
					}
					seen := pdescOf(st.LastIn[tag])
					p, exists := seen.Partitions[a.part]
					var want error
					switch a.kind {
					case "state", "lc-state":
						switch {
						case !exists:
							want = ring.ErrPartitionDoesNotExist
						case p.State == a.to:
						case !allowedEdge[[2]ring.PartitionState{p.State, a.to}]:
							want = ring.ErrPartitionStateChangeNotAllowed
						case p.StateChangeLocked:
							want = ring.ErrPartitionStateChangeLocked
						}
					case "lock", "unlock":
						if !exists {
							want = ring.ErrPartitionDoesNotExist
						}
					}
					if a.kind == "lc-state" && err != nil && err.Error() == "lifecycler not running" && !wrote {
						// the schedule let the request arrive before the lifecycler's loop was up (or after it ended): refused
						// without looking at the ring, nothing written — no clause of the property is concerned
						want, err = nil, nil
					}
					switch {
					case want != nil && !errors.Is(err, want):
						sched.Obs(fmt.Sprintf("API-VIOLATION %s(partition %d → %s) on %v returned %v, want %v", a.kind, a.part, a.to, p, err, want))
					case want == nil && err != nil && a.kind != "lc-state":
						sched.Obs(fmt.Sprintf("API-VIOLATION %s(partition %d → %s) on %v returned %v, want success", a.kind, a.part, a.to, p, err))
					case want != nil && wrote:
						sched.Obs(fmt.Sprintf("API-VIOLATION %s(partition %d → %s) was refused but wrote to the ring", a.kind, a.part, a.to))
					}
					sched.Obs(fmt.Sprintf("%s p%d %s -> %v", a.kind, a.part, a.to, err))
				}
			})
		}
		e.Run()
		canon := e.CanonLog()
		trace := append([]string{}, e.Trace...)
		log := e.Events()
		e.Disable()
		synctest.Wait()
		var viol, key string
		for _, evn := range log {
			if strings.HasPrefix(evn.Text, "API-VIOLATION") && viol == "" {
				viol, key = evn.Text, "api"
			}
		}
		if k, w := pmonitor(sc, st, t0, apiWrites); k != "" && viol == "" {
			viol, key = w, k
		}
		cur := pdescOf(st.Peek(pringKey))
		var fin []string
		for id, p := range cur.Partitions {
			fin = append(fin, fmt.Sprintf("P%d:%s lock=%v", id, p.State, p.StateChangeLocked))
		}
		for id := range cur.Owners {
			fin = append(fin, "o:"+id)
		}
		sort.Strings(fin)
		res = sched.Result{Violation: viol, Key: key, Outcome: fmt.Sprintf("%v writes=%d", fin, len(st.Writes)), Trace: append(trace, canon...)}
		for _, l := range lcs {
			l.StopAsync()
		}
		e.Teardown()
		for i := 0; i < 100; i++ {
			done := true
			for _, l := range lcs {
				if s := l.State(); s != services.Terminated && s != services.Failed && s != services.New {
					done = false
				}
			}
			if done {
				break
			}
			time.Sleep(time.Second)
		}
	})
	return
}

func scenariosC15() []pscenario {
	inactiveOrphan := func(now time.Time) *ring.PartitionRingDesc {
		d := ring.NewPartitionRingDesc()
		d.AddPartition(2, ring.PartitionInactive, now)
		return d
	}
	activeP1 := func(now time.Time) *ring.PartitionRingDesc {
		d := ring.NewPartitionRingDesc()
		d.AddPartition(1, ring.PartitionActive, now.Add(-time.Hour))
		return d
	}
	return []pscenario{
		{name: "promotion-one-owner", lcs: []plcSpec{{id: "i1", partition: 1, waitOwners: 1}}, horizon: 24 * time.Second},
		{name: "promotion-two-owners", lcs: []plcSpec{{id: "i1", partition: 1, waitOwners: 2}, {id: "i2", partition: 1, waitOwners: 2}}, horizon: 24 * time.Second},
		{name: "promotion-vs-lock", lcs: []plcSpec{{id: "i1", partition: 1, waitOwners: 1}}, actions: []paction{{at: 3 * time.Second, kind: "lock", part: 1}, {at: 17 * time.Second, kind: "unlock", part: 1},
			{at: 12 * time.Second, kind: "state", part: 1, to: ring.PartitionInactive, want: ring.ErrPartitionStateChangeLocked}}, horizon: 26 * time.Second},
		// an operator deactivates the pending partition at the moment its lifecycler is about to promote it
		{name: "promotion-vs-deactivation", lcs: []plcSpec{{id: "i1", partition: 1, waitOwners: 1}}, actions: []paction{{at: 15 * time.Second, kind: "state", part: 1, to: ring.PartitionInactive}}, horizon: 24 * time.Second},
		{name: "editor-edges", seed: activeP1, lcs: []plcSpec{{id: "i1", partition: 1, waitOwners: 1}}, actions: []paction{
			{at: 1 * time.Second, kind: "state", part: 1, to: ring.PartitionPending, want: ring.ErrPartitionStateChangeNotAllowed},
			{at: 2 * time.Second, kind: "state", part: 1, to: ring.PartitionInactive},
			{at: 3 * time.Second, kind: "state", part: 7, to: ring.PartitionActive, want: ring.ErrPartitionDoesNotExist},
			{at: 4 * time.Second, kind: "lc-state", who: "i1", part: 1, to: ring.PartitionActive},
			{at: 5 * time.Second, kind: "lock", part: 1}, {at: 6 * time.Second, kind: "lc-state", who: "i1", part: 1, to: ring.PartitionInactive, want: ring.ErrPartitionStateChangeLocked}}, horizon: 9 * time.Second},
		// requests whose target is not one of pending / active / inactive (the admin page and the API take any value):
		// refused from every state, nothing written
		{name: "editor-odd-targets", seed: activeP1, lcs: []plcSpec{{id: "i1", partition: 1, waitOwners: 1}}, actions: []paction{
			{at: 1 * time.Second, kind: "state", part: 1, to: ring.PartitionDeleted, want: ring.ErrPartitionStateChangeNotAllowed},
			{at: 2 * time.Second, kind: "lc-state", who: "i1", part: 1, to: ring.PartitionUnknown, want: ring.ErrPartitionStateChangeNotAllowed},
			{at: 3 * time.Second, kind: "state", part: 1, to: ring.PartitionInactive},
			{at: 4 * time.Second, kind: "state", part: 1, to: ring.PartitionState(9), want: ring.ErrPartitionStateChangeNotAllowed},
			{at: 5 * time.Second, kind: "lc-state", who: "i1", part: 1, to: ring.PartitionDeleted, want: ring.ErrPartitionStateChangeNotAllowed}}, horizon: 8 * time.Second},
		{name: "pending-odd-targets", lcs: []plcSpec{{id: "i1", partition: 1, waitOwners: 1}}, actions: []paction{
			{at: 2 * time.Second, kind: "state", part: 1, to: ring.PartitionDeleted, want: ring.ErrPartitionStateChangeNotAllowed},
			{at: 3 * time.Second, kind: "state", part: 1, to: ring.PartitionUnknown, want: ring.ErrPartitionStateChangeNotAllowed}}, horizon: 8 * time.Second},
		{name: "delete-orphan-partition", seed: inactiveOrphan, lcs: []plcSpec{{id: "i1", partition: 1, waitOwners: 1}}, horizon: 28 * time.Second},
		// an operator re-activates the orphan at the very moment another lifecycler's reconciliation is about to delete it
		{name: "delete-orphan-vs-reactivation", seed: inactiveOrphan, lcs: []plcSpec{{id: "i1", partition: 1, waitOwners: 1}}, actions: []paction{{at: 25 * time.Second, kind: "state", part: 2, to: ring.PartitionActive}}, horizon: 32 * time.Second},
		{name: "own-partition-inactive-and-ownerless", lcs: []plcSpec{{id: "i1", partition: 1, waitOwners: 1, multi: true}, {id: "i3", partition: 3, waitOwners: 1}},
			actions: []paction{{at: 1 * time.Second, kind: "state", part: 1, to: ring.PartitionInactive}, {at: 2 * time.Second, kind: "remove-owner", who: "i1", part: 1}, {at: 26 * time.Second, kind: "stop", who: "i3"}}, horizon: 34 * time.Second},
		{name: "stop-removes-owner-then-delete", lcs: []plcSpec{{id: "i1", partition: 1, waitOwners: 1, removeOwner: true}, {id: "i2", partition: 2, waitOwners: 1}},
			actions: []paction{{at: 1 * time.Second, kind: "state", part: 1, to: ring.PartitionInactive}, {at: 3 * time.Second, kind: "stop", who: "i1"}}, horizon: 30 * time.Second},
	}
}

func TestC15StateMachine(t *testing.T) {
	rep := ev.NewReport("C15", "state-machine")
	bound := 2
	if ev.Thorough() {
		bound = 3
	}
	if b := os.Getenv("VERIF_BOUND"); b != "" {
		fmt.Sscan(b, &bound)
	}
	scs := scenariosC15()
	var names []string
	for _, s := range scs {
		names = append(names, s.name)
	}
	rep.Bound = fmt.Sprintf("scenarios %v: 1..2 real PartitionInstanceLifecyclers (polling 5 s, wait-owners 10 s with count 1..2, delete-inactive delay 20 s, single- and multi-partition ownership) and a real PartitionRingEditor on the recording store under a virtual clock (1 s ticks, horizons 9..34 s); choices: commit order of pending store operations, CAS conflicts, timing of editor calls / stops, clock ticks; all schedules with <= %d departures from the default order", names, bound)
	rep.Rule = "monitor over every recorded ring version: state changes only along pending→active|inactive, active↔inactive; none while the predecessor version had the state locked; an unrequested pending→active by a lifecycler only with >= WaitOwnersCount owners registered for the waiting time; a partition disappears only if it was inactive longer than the delay, had no owner, and the writer is a lifecycler that does not own it; tokens never change; refused API calls return the documented error and write nothing; distinct_nontrivial = distinct (scenario, final ring, writes)"
	deadline := ev.Deadline(8 * time.Minute)
	for _, sc := range scs {
		x := &sched.Explorer{Bound: bound, Report: rep, Deadline: deadline, Scenario: sc.name, AuditN: 200, Run: func(c *sched.Chooser) sched.Result { return runC15(t, sc, c) }}
		if !x.ExploreOrReplay() {
			rep.NotExhaustive("deadline or violation cap in " + sc.name)
			break
		}
		rep.Add("scenarios_completed", 1)
		rep.Sample(fmt.Sprintf("%s: %d executions, %d distinct outcomes", sc.name, x.Execs, x.Outcomes()))
	}
	if err := rep.Write(); err != nil {
		t.Fatal(err)
	}
}
