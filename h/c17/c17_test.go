// C17 — services and their manager follow the state machine on every interleaving.
// Engine E2: services/{basic_service,manager,failure_watcher}.go under the controlled scheduler.
package c17

import (
	"context"
	"errors"
	"fmt"
	"os"
	"strings"
	"testing"
	"testing/synctest"
	"time"

	"github.com/grafana/dskit/services"

	"verif/ev"
	"verif/sched"
)

// function outcomes
const (
	oNil    = 0
	oErr    = 1
	oBlock  = 2 // block until the service context is done, then return nil
	oAbsent = 3 // function is nil
)

var oName = []string{"nil", "err", "block", "absent"}

type scenario struct {
	name              string
	start, run, stop  int
	stopper           bool // StopAsync thread
	stopper2          bool
	canceller         bool // parent-context canceller
	waiters           bool // AwaitRunning / AwaitTerminated (background ctx)
	parkingListener   bool // second listener whose callbacks take time (park)
	lateListener      bool // listener added at any moment (+ remover)
	gatedStop         bool // the stopping function does not finish before AwaitRunning has returned: by then Running is reached or unreachable
	keepListener      bool // with lateListener: the late listener is never removed, so it must see every later transition
	cancellableWaiter bool
	big               bool
}

func (s scenario) fullName() string {
	return fmt.Sprintf("%s[start=%s run=%s stop=%s]", s.name, oName[s.start], oName[s.run], oName[s.stop])
}

var errStart = errors.New("start failed")
var errRun = errors.New("run failed")
var errStop = errors.New("stop failed")

type lst struct {
	name string
	park bool
}

func (l lst) ev(s string) {
	if l.park {
		sched.Yield("listener-enter")
		sched.Obs(l.name + " enter " + s)
		sched.Yield("listener-body")
		sched.Obs(l.name + " exit " + s)
		return
	}
	sched.Obs(l.name + " " + s)
}
func (l lst) Starting()                      { l.ev("Starting") }
func (l lst) Running()                       { l.ev("Running") }
func (l lst) Stopping(from services.State)   { l.ev("Stopping(" + from.String() + ")") }
func (l lst) Terminated(from services.State) { l.ev("Terminated(" + from.String() + ")") }
func (l lst) Failed(from services.State, err error) {
	l.ev("Failed(" + from.String() + "," + err.Error() + ")")
}

// legal listener sequences (full, from registration before start)
func legalSequence(seq []string) bool {
	s := strings.Join(seq, " ")
	switch {
	case s == "":
		return true
	case s == "Terminated(New)":
		return true
	}
	if len(seq) == 0 || seq[0] != "Starting" {
		return false
	}
	rest := seq[1:]
	if len(rest) == 0 {
		return true
	}
	if strings.HasPrefix(rest[0], "Failed(Starting,") {
		return len(rest) == 1
	}
	from := "Starting"
	if rest[0] == "Running" {
		from = "Running"
		rest = rest[1:]
		if len(rest) == 0 {
			return true
		}
	}
	if rest[0] != "Stopping("+from+")" {
		return false
	}
	rest = rest[1:]
	if len(rest) == 0 {
		return true
	}
	if len(rest) == 1 && (rest[0] == "Terminated(Stopping)" || strings.HasPrefix(rest[0], "Failed(Stopping,")) {
		return true
	}
	return false
}

type svcProbe struct {
	sc       scenario
	svc      *services.BasicService
	name     string
	calls    map[string]int
	stopGate func() bool
}

func (p *svcProbe) fn(which string, outcome int, errv error) func(ctx context.Context) error {
	if outcome == oAbsent {
		return nil
	}
	return func(ctx context.Context) error {
		sched.SetName(p.name + "main")
		sched.Yield(which + "-enter")
		sched.Obs(p.name + which + "-enter")
		var err error
		switch outcome {
		case oErr:
			err = errv
		case oBlock:
			<-ctx.Done()
			sched.Yield(which + "-unblocked")
		}
		sched.Obs(fmt.Sprintf("%s%s-exit %v", p.name, which, err))
		return err
	}
}

func (p *svcProbe) build() *services.BasicService {
	var stopFn services.StoppingFn
	if p.sc.stop != oAbsent {
		stopFn = func(failure error) error {
			sched.SetName(p.name + "main")
			sched.Yield("stop-enter")
			cerr := error(nil)
			if c := p.svc.ServiceContext(); c != nil {
				cerr = c.Err()
			}
			sched.Obs(fmt.Sprintf("%sstop-enter ctxErr=%v failure=%v", p.name, cerr, failure))
			if p.stopGate != nil {
				sched.YieldUntil("stop-gate", p.stopGate)
			}
			var err error
			if p.sc.stop == oErr {
				err = errStop
			}
			sched.Obs(fmt.Sprintf("%sstop-exit %v", p.name, err))
			return err
		}
	}
	p.svc = services.NewBasicService(p.fn("start", p.sc.start, errStart), p.fn("run", p.sc.run, errRun), stopFn)
	return p.svc
}

// expected terminal state and failure of a service given what happened
func expectFinal(sc scenario, log []sched.Event, name string) (state string, failure string, known bool) {
	has := func(s string) bool {
		for _, e := range log {
			if e.Text == name+s {
				return true
			}
		}
		return false
	}
	startRan := has("start-enter") || sc.start == oAbsent
	_ = startRan
	return "", "", false
}

func runSingle(t *testing.T, sc scenario, ch *sched.Chooser) (res sched.Result) {
	synctest.Test(t, func(t *testing.T) {
		e := sched.NewExec(ch)
		e.MaxSteps = 4000
		parent, cancelParent := context.WithCancel(context.Background())
		defer cancelParent()
		p := &svcProbe{sc: sc, name: ""}
		svc := p.build()
		// L0 is registered before anything starts (scheduler still disabled): the monitor
		svc.AddListener(lst{name: "L0"})
		if sc.parkingListener {
			svc.AddListener(lst{name: "L1", park: true})
		}
		wctx, wcancel := context.WithCancel(context.Background())
		defer wcancel()
		wStarted, wReturned := false, false
		added := false
		var remove func()
		e.Enable()
		e.Go("a-starter", func() {
			err := svc.StartAsync(parent)
			sched.Obs(fmt.Sprintf("StartAsync -> %v", err != nil))
		})
		if sc.stopper {
			e.Go("b-stopper", func() {
				sched.Obs("stop-request")
				svc.StopAsync()
				sched.Yield("stopped")
				sched.Obs("StopAsync returned")
			})
		}
		if sc.stopper2 {
			e.Go("b-stopper2", func() { svc.StopAsync(); svc.StopAsync() })
		}
		if sc.canceller {
			e.Go("c-cancel", func() { sched.Obs("parent-cancel"); cancelParent() })
		}
		wrReturned := false
		if sc.gatedStop {
			p.stopGate = func() bool { return wrReturned }
		}
		if sc.waiters {
			e.Go("w-running", func() {
				err := svc.AwaitRunning(context.Background())
				wrReturned = true
				sched.Obs(fmt.Sprintf("AwaitRunning -> nil=%v", err == nil))
			})
			e.Go("w-terminated", func() {
				err := svc.AwaitTerminated(context.Background())
				sched.Obs(fmt.Sprintf("AwaitTerminated -> nil=%v", err == nil))
			})
		}
		if sc.cancellableWaiter {
			e.Go("w-cancellable", func() {
				wStarted = true
				sched.Obs("cw-start")
				err := svc.AwaitTerminated(wctx)
				wReturned = true
				sched.Obs(fmt.Sprintf("AwaitTerminated(cancellable) -> %v", errors.Is(err, context.Canceled)))
			})
			e.Go("x-waiter-cancel", func() {
				// cancel only while the waiter is inside its call: a select never sees two ready cases
				sched.YieldUntil("cancel-waiter", func() bool { return wStarted && !wReturned })
				sched.Obs("cw-cancel")
				wcancel()
			})
		}
		if sc.lateListener {
			e.Go("l-adder", func() {
				sched.Obs("L2 adding")
				remove = svc.AddListener(lst{name: "L2"})
				added = true
				sched.Yield("added")
				sched.Obs("L2 added")
			})
			if !sc.keepListener {
				e.Go("l-remover", func() {
					sched.YieldUntil("remove", func() bool { return added })
					sched.Obs("L2 removing")
					remove()
					sched.Yield("removed")
					sched.Obs("L2 removed")
				})
			}
		}
		status := e.Run()
		// the cancellable-waiter canceller may be left parked forever (its window closed): that is not a hang
		var viol, key string
		fail := func(k, f string, a ...any) {
			if viol == "" {
				viol, key = fmt.Sprintf(f, a...), k
			}
		}
		leftover := e.Parked()
		canon := e.CanonLog()
		traceCopy := append([]string{}, e.Trace...)
		logSnapshot := e.Events()
		// rule 1: the controller never runs hooked code while the scheduler is on
		e.Disable()
		synctest.Wait()
		onlyBenign := true
		for _, pk := range leftover {
			if !strings.HasPrefix(pk, "x-waiter-cancel/") {
				onlyBenign = false
			}
		}
		log := logSnapshot
		seqOf := func(text string) int64 {
			for _, evn := range log {
				if evn.Text == text {
					return evn.Seq
				}
			}
			return 0
		}
		hasPrefix := func(pfx string) (string, int64) {
			for _, evn := range log {
				if strings.HasPrefix(evn.Text, pfx) {
					return evn.Text, evn.Seq
				}
			}
			return "", 0
		}
		count := func(pfx string) int {
			n := 0
			for _, evn := range log {
				if strings.HasPrefix(evn.Text, pfx) {
					n++
				}
			}
			return n
		}
		// listener sequences
		stepOf := map[int64]int{}
		for _, evn := range log {
			stepOf[evn.Seq] = evn.Step
		}
		// before(a,b): event a is ordered before event b by the controller (strictly earlier step);
		// events of different goroutines inside one step are natively unordered and never compared
		before := func(a, b int64) bool { return stepOf[a] < stepOf[b] }
		_ = before
		seqs := map[string][]string{}
		seqSeq := map[string][]int64{}
		open := map[string]string{}
		for _, evn := range log {
			for _, ln := range []string{"L0", "L1", "L2"} {
				if !strings.HasPrefix(evn.Text, ln+" ") {
					continue
				}
				rest := strings.TrimPrefix(evn.Text, ln+" ")
				switch {
				case rest == "adding" || rest == "added" || rest == "removing" || rest == "removed":
				case strings.HasPrefix(rest, "enter "):
					if open[ln] != "" {
						fail("listener-overlap", "listener %s: callback %s entered while %s still running", ln, rest, open[ln])
					}
					open[ln] = strings.TrimPrefix(rest, "enter ")
					seqs[ln] = append(seqs[ln], open[ln])
					seqSeq[ln] = append(seqSeq[ln], evn.Seq)
				case strings.HasPrefix(rest, "exit "):
					open[ln] = ""
				default:
					seqs[ln] = append(seqs[ln], rest)
					seqSeq[ln] = append(seqSeq[ln], evn.Seq)
				}
			}
		}
		if !legalSequence(seqs["L0"]) {
			fail("illegal-transitions", "listener saw illegal transition sequence %v", seqs["L0"])
		}
		// functions: at most once, in order
		for _, f := range []string{"start", "run", "stop"} {
			if count(f+"-enter") > 1 {
				fail("fn-twice", "%s function ran %d times", f, count(f+"-enter"))
			}
		}
		sEnter, sExit := seqOf("start-enter"), int64(0)
		startTxt, se := hasPrefix("start-exit")
		sExit = se
		rEnter := seqOf("run-enter")
		runTxt, rExit := hasPrefix("run-exit")
		stopTxt, stEnter := hasPrefix("stop-enter")
		stopExitTxt, _ := hasPrefix("stop-exit")
		if rEnter != 0 && (sc.start != oAbsent && (sExit == 0 || rEnter < sExit)) {
			fail("order", "running function entered before starting function returned")
		}
		if stEnter != 0 && sc.start != oAbsent && (sExit == 0 || stEnter < sExit) {
			fail("order", "stopping function entered before starting function returned")
		}
		if stEnter != 0 && rEnter != 0 && (rExit == 0 || stEnter < rExit) {
			fail("order", "stopping function entered before running function returned")
		}
		startOK := (sc.start == oAbsent && len(seqs["L0"]) > 0 && seqs["L0"][0] == "Starting") || startTxt == "start-exit <nil>"
		_ = sEnter
		if status == "done" || onlyBenign {
			final := svc.State()
			finalList := ""
			if n := len(seqs["L0"]); n > 0 {
				finalList = seqs["L0"][n-1]
			}
			started := len(seqs["L0"]) > 0 && seqs["L0"][0] == "Starting"
			terminal := final == services.Terminated || final == services.Failed
			if started && !terminal {
				fail("not-terminal", "service ended in state %v (listener: %v) although every function returned", final, seqs["L0"])
			}
			if terminal && !strings.HasPrefix(finalList, final.String()) {
				fail("listener-miss", "final state %v but last notification %q (all: %v)", final, finalList, seqs["L0"])
			}
			if sc.stop != oAbsent {
				if startOK && started && stEnter == 0 {
					fail("stop-missing", "starting succeeded but the stopping function never ran (listener: %v)", seqs["L0"])
				}
				if !startOK && stEnter != 0 {
					fail("stop-spurious", "stopping function ran although starting did not succeed")
				}
			}
			if stEnter != 0 && !strings.Contains(stopTxt, "ctxErr=context canceled") {
				fail("ctx-live-in-stop", "service context not cancelled when the stopping function ran: %s", stopTxt)
			}
			// failure cause = first error
			wantFail := ""
			switch {
			case startTxt == "start-exit "+errStart.Error():
				wantFail = errStart.Error()
			case runTxt == "run-exit "+errRun.Error():
				wantFail = errRun.Error()
			case stopExitTxt == "stop-exit "+errStop.Error():
				wantFail = errStop.Error()
			}
			if terminal {
				gotFail := ""
				if fc := svc.FailureCase(); fc != nil {
					gotFail = fc.Error()
				}
				if gotFail != wantFail {
					fail("failure-cause", "failure cause %q, want first error %q", gotFail, wantFail)
				}
				if (final == services.Failed) != (wantFail != "") {
					fail("final-state", "final state %v but first error %q", final, wantFail)
				}
			}
			if strings.Contains(stopTxt, "failure=") && rExit != 0 && !strings.Contains(stopTxt, "failure="+strings.TrimPrefix(runTxt, "run-exit ")) {
				fail("stop-arg", "stopping function got %s, running function returned %s", stopTxt, runTxt)
			}
			// waiters
			if sc.waiters && terminal {
				rTxt, rSeq := hasPrefix("AwaitRunning ->")
				tTxt, tSeq := hasPrefix("AwaitTerminated ->")
				if rSeq == 0 || tSeq == 0 {
					fail("waiter-stuck", "a waiter never returned although the service is %v (running: %q terminated: %q)", final, rTxt, tTxt)
				}
				reachedRunning := int64(0)
				decided := int64(0)
				for i, s := range seqs["L0"] {
					if s == "Running" {
						reachedRunning = seqSeq["L0"][i]
					}
					if decided == 0 && s != "Starting" {
						decided = seqSeq["L0"][i]
					}
				}
				if rSeq != 0 && (decided == 0 || before(rSeq, decided)) {
					fail("waiter-early", "AwaitRunning returned before Running was reached or ruled out")
				}
				if rTxt == "AwaitRunning -> nil=true" && reachedRunning == 0 {
					fail("waiter-wrong", "AwaitRunning returned nil but the service never was Running")
				}
				if tSeq != 0 && (tTxt == "AwaitTerminated -> nil=true") != (final == services.Terminated) {
					fail("waiter-wrong", "%s but final state is %v", tTxt, final)
				}
				termSeq := int64(0)
				if n := len(seqSeq["L0"]); n > 0 {
					termSeq = seqSeq["L0"][n-1]
				}
				if tSeq != 0 && before(tSeq, termSeq) {
					fail("waiter-early", "AwaitTerminated returned before a terminal state was notified")
				}
			}
			if sc.cancellableWaiter && terminal {
				if _, s := hasPrefix("AwaitTerminated(cancellable)"); s == 0 {
					fail("waiter-stuck", "cancellable waiter never returned")
				}
			}
			if sc.parkingListener && fmt.Sprint(seqs["L1"]) != fmt.Sprint(seqs["L0"]) {
				fail("listener-order", "slow listener saw %v, monitor saw %v", seqs["L1"], seqs["L0"])
			}
			if sc.lateListener {
				// L2's events: contiguous run of L0's sequence; must include everything L0 logged after "L2 added"
				// (unless removal began), must not include anything logged before "L2 adding" or after "L2 removed"
				l2 := seqs["L2"]
				l0 := seqs["L0"]
				match := -1
				for off := 0; off+len(l2) <= len(l0); off++ {
					if fmt.Sprint(l0[off:off+len(l2)]) == fmt.Sprint(l2) {
						match = off
					}
				}
				if len(l2) > 0 && match < 0 {
					fail("late-listener", "late listener saw %v which is not a contiguous part of %v", l2, l0)
				}
				addedSeq, removingSeq, removedSeq := seqOf("L2 added"), seqOf("L2 removing"), seqOf("L2 removed")
				// (what a listener that is being removed still sees is not promised: its goroutine stops at once;
				// the obligation to see every later transition is checked in the never-removed variant below)
				_ = removingSeq
				if sc.keepListener && status == "done" && addedSeq != 0 {
					// Never removed: L2 sees exactly the transitions made after its registration, i.e. a suffix of
					// L0's sequence, at least as long as what provably came later: the transitions that follow the
					// return of a service function which returned after "L2 added" was logged (the log entry
					// is written after AddListener returned, so this under-approximates the obligation).
					if len(l2) > 0 && fmt.Sprint(l0[len(l0)-len(l2):]) != fmt.Sprint(l2) {
						fail("late-listener-suffix", "never-removed late listener saw %v which is not a suffix of %v", l2, l0)
					}
					first := len(l0) // index in l0 of the first transition L2 is obliged to see
					if _, x := hasPrefix("start-exit"); x != 0 && before(addedSeq, x) && len(l0) > 1 {
						first = min(first, 1)
					}
					if _, x := hasPrefix("run-exit"); x != 0 && before(addedSeq, x) {
						for i, tr := range l0 {
							if i > 0 && l0[i-1] == "Running" {
								first = min(first, i)
							}
							_ = tr
						}
					}
					if _, x := hasPrefix("stop-exit"); x != 0 && before(addedSeq, x) && len(l0) > 0 &&
						(strings.HasPrefix(l0[len(l0)-1], "Terminated(Stopping") || strings.HasPrefix(l0[len(l0)-1], "Failed(Stopping")) {
						first = min(first, len(l0)-1)
					}
					if len(l2) < len(l0)-first {
						fail("late-listener-miss", "late listener (never removed) was registered before a service function returned but saw only %v of the transitions %v that followed (all: %v)", l2, l0[first:], l0)
					}
				}
				for _, s := range seqSeq["L2"] {
					if removedSeq != 0 && before(removedSeq, s) {
						fail("late-listener-after-remove", "listener called after its removal returned")
					}
				}
			}
		}
		if status != "done" && !onlyBenign {
			fail("deadlock", "execution did not finish: status=%s parked=%v log=%v", status, leftover, canon)
		}
		res = sched.Result{Violation: viol, Key: key, Outcome: fmt.Sprintf("%v|%v|%v", seqs["L0"], svc.State(), count("Await")), Trace: append(traceCopy, canon...)}
		cancelParent()
		wcancel()
		svc.StopAsync()
		e.Teardown()
	})
	return
}

func singleScenarios() []scenario {
	var out []scenario
	outcomes := [][3]int{}
	for _, st := range []int{oNil, oErr, oBlock, oAbsent} {
		for _, ru := range []int{oNil, oErr, oBlock, oAbsent} {
			for _, sp := range []int{oNil, oErr, oAbsent} {
				if st == oErr && (ru != oNil || sp != oNil) {
					continue // run/stop never execute after a failed start
				}
				outcomes = append(outcomes, [3]int{st, ru, sp})
			}
		}
	}
	for _, o := range outcomes {
		blocks := o[0] == oBlock || o[1] == oBlock || o[1] == oAbsent
		_ = blocks
		out = append(out, scenario{name: "core", start: o[0], run: o[1], stop: o[2], stopper: true, waiters: true})
	}
	for _, o := range [][3]int{{oBlock, oBlock, oNil}, {oNil, oBlock, oErr}, {oBlock, oNil, oNil}, {oNil, oNil, oNil}, {oNil, oAbsent, oNil}} {
		out = append(out, scenario{name: "cancel", start: o[0], run: o[1], stop: o[2], stopper: true, canceller: true})
		out = append(out, scenario{name: "double-stop", start: o[0], run: o[1], stop: o[2], stopper: true, stopper2: true})
	}
	// "waiters return exactly when their state is reached or can no longer be reached": once the stopping function
	// runs, Running is decided, so a stopping function that waits for AwaitRunning to return must not deadlock
	for _, o := range [][3]int{{oBlock, oBlock, oNil}, {oBlock, oNil, oErr}, {oNil, oBlock, oNil}, {oNil, oNil, oNil}, {oNil, oErr, oNil}} {
		out = append(out, scenario{name: "gated-stop", start: o[0], run: o[1], stop: o[2], stopper: true, waiters: true, gatedStop: true})
	}
	for _, o := range [][3]int{{oNil, oBlock, oNil}, {oNil, oErr, oNil}, {oErr, oNil, oNil}, {oBlock, oBlock, oErr}} {
		out = append(out, scenario{name: "slow-listener", start: o[0], run: o[1], stop: o[2], stopper: true, parkingListener: true})
		out = append(out, scenario{name: "late-listener", start: o[0], run: o[1], stop: o[2], stopper: true, lateListener: true, big: true})
		out = append(out, scenario{name: "late-listener-keep", start: o[0], run: o[1], stop: o[2], stopper: true, lateListener: true, keepListener: true})
		out = append(out, scenario{name: "cancellable-waiter", start: o[0], run: o[1], stop: o[2], stopper: true, cancellableWaiter: true})
	}
	return out
}

func TestC17Single(t *testing.T) {
	rep := ev.NewReport("C17", "single-service")
	bound := 2
	if ev.Thorough() {
		bound = 3
	}
	if b := os.Getenv("VERIF_BOUND"); b != "" {
		fmt.Sscan(b, &bound)
	}
	scs := singleScenarios()
	rep.Bound = fmt.Sprintf("%d scenarios: every outcome vector (nil / error / block until the service context ends / absent) of the three functions × thread sets {StartAsync, StopAsync (also doubled), parent-context cancel, AwaitRunning, AwaitTerminated, cancellable waiter + its canceller, slow (parking) listener, listener added and removed at any moment}; all schedules with <= %d preemptions (one less for late-listener) over every lock/atomic/WaitGroup operation of services/basic_service.go and every harness callback", len(scs), bound)
	rep.Rule = "stateless DFS on the real BasicService; monitor over the observation log: legal transition sequence, each function at most once and in order, stopping runs iff starting succeeded and sees a cancelled service context, failure cause = first error, waiters return when decided and with the right answer, listeners see each transition once in order without overlap (late listeners: a contiguous suffix), no deadlock; distinct_nontrivial = distinct (scenario, transition sequence, final state)"
	deadline := ev.Deadline(8 * time.Minute)
	for _, sc := range scs {
		b := bound
		if sc.big {
			b--
		}
		x := &sched.Explorer{Bound: b, Report: rep, Deadline: deadline, Scenario: sc.fullName(), Run: func(c *sched.Chooser) sched.Result { return runSingle(t, sc, c) }}
		if !x.ExploreOrReplay() {
			rep.NotExhaustive("deadline or violation cap in " + sc.fullName())
			break
		}
		rep.Add("scenarios_completed", 1)
		if x.Execs > 50 {
			rep.Sample(fmt.Sprintf("%s: %d executions, %d distinct outcomes", sc.fullName(), x.Execs, x.Outcomes()))
		}
	}
	if err := rep.Write(); err != nil {
		t.Fatal(err)
	}
}

// ---------------- manager ----------------

type mlst struct{}

func (mlst) Healthy()                   { sched.Obs("ML Healthy") }
func (mlst) Stopped()                   { sched.Obs("ML Stopped") }
func (mlst) Failure(s services.Service) { sched.Obs("ML Failure " + services.DescribeService(s)) }

type mscenario struct {
	name  string
	svcs  [][3]int // outcome vector per service
	stop  bool
	watch bool // FailureWatcher on the manager
}

func (m mscenario) fullName() string {
	var p []string
	for _, o := range m.svcs {
		p = append(p, fmt.Sprintf("%s/%s/%s", oName[o[0]], oName[o[1]], oName[o[2]]))
	}
	return fmt.Sprintf("%s[%s stop=%v watch=%v]", m.name, strings.Join(p, " | "), m.stop, m.watch)
}

func runManager(t *testing.T, sc mscenario, ch *sched.Chooser) (res sched.Result) {
	synctest.Test(t, func(t *testing.T) {
		e := sched.NewExec(ch)
		e.MaxSteps = 6000
		e.DelayBounded = true
		ctx, cancel := context.WithCancel(context.Background())
		defer cancel()
		var probes []*svcProbe
		var svcs []services.Service
		for i, o := range sc.svcs {
			p := &svcProbe{sc: scenario{start: o[0], run: o[1], stop: o[2]}, name: string(rune('A'+i)) + ":"}
			s := p.build()
			s.WithName(p.name)
			s.AddListener(lst{name: p.name + "L0"})
			probes = append(probes, p)
			svcs = append(svcs, s)
		}
		m, err := services.NewManager(svcs...)
		if err != nil {
			panic(err)
		}
		m.AddListener(mlst{})
		var fw *services.FailureWatcher
		fwDone := make(chan struct{})
		if sc.watch {
			fw = services.NewFailureWatcher()
			fw.WatchManager(m)
			go func() {
				defer close(fwDone)
				for err := range fw.Chan() {
					sched.Obs("FW " + err.Error())
				}
			}()
		}
		e.Enable()
		e.Go("a-mstart", func() { err := m.StartAsync(ctx); sched.Obs(fmt.Sprintf("m.StartAsync -> err=%v", err != nil)) })
		if sc.stop {
			e.Go("b-mstop", func() { sched.Obs("m.stop-request"); m.StopAsync() })
		}
		e.Go("w-healthy", func() {
			err := m.AwaitHealthy(context.Background())
			sched.Obs(fmt.Sprintf("AwaitHealthy -> nil=%v", err == nil))
		})
		e.Go("w-stopped", func() {
			err := m.AwaitStopped(context.Background())
			sched.Obs(fmt.Sprintf("AwaitStopped -> nil=%v", err == nil))
		})
		status := e.Run()
		leftover := e.Parked()
		canon := e.CanonLog()
		traceCopy := append([]string{}, e.Trace...)
		log := e.Events()
		e.Disable()
		synctest.Wait()
		var viol, key string
		fail := func(k, f string, a ...any) {
			if viol == "" {
				viol, key = fmt.Sprintf(f, a...), k
			}
		}
		count := func(pfx string) (n int, first int64, last int64) {
			for _, evn := range log {
				if strings.HasPrefix(evn.Text, pfx) {
					n++
					if first == 0 {
						first = evn.Seq
					}
					last = evn.Seq
				}
			}
			return
		}
		if status != "done" {
			// services whose running function blocks keep running until stopped: without a stop request the
			// execution legitimately ends with everything parked in native waits
			blocked := false
			for _, o := range sc.svcs {
				if (o[1] == oBlock || o[1] == oAbsent || o[0] == oBlock) && !sc.stop {
					blocked = true
				}
			}
			if !blocked || len(leftover) > 0 {
				fail("deadlock", "execution did not finish: status=%s parked=%v log=%v", status, leftover, canon)
			}
		}
		allTerminal := true
		allRan := true
		failed := 0
		for i, s := range svcs {
			st := s.State()
			if st != services.Terminated && st != services.Failed {
				allTerminal = false
			}
			if st == services.Failed {
				failed++
			}
			if n, _, _ := count(probes[i].name + "L0 Running"); n == 0 {
				allRan = false
			}
			var seq []string
			for _, evn := range log {
				if strings.HasPrefix(evn.Text, probes[i].name+"L0 ") {
					seq = append(seq, strings.TrimPrefix(evn.Text, probes[i].name+"L0 "))
				}
			}
			if !legalSequence(seq) {
				fail("illegal-transitions", "service %s: illegal transition sequence %v", probes[i].name, seq)
			}
		}
		// "healthy exactly while all its services run": at quiescence (every notification delivered) the manager's own
		// view must agree with the services' states — also after it has been healthy once
		allRunning := len(svcs) > 0
		for _, s := range svcs {
			if s.State() != services.Running {
				allRunning = false
			}
		}
		if m.IsHealthy() != allRunning {
			var sts []string
			for _, s := range svcs {
				sts = append(sts, s.State().String())
			}
			fail("healthy-stale", "at quiescence IsHealthy=%v but all services running=%v (states %v)", m.IsHealthy(), allRunning, sts)
		}
		nH, _, _ := count("ML Healthy")
		nS, sSeq, _ := count("ML Stopped")
		nF, _, fLast := count("ML Failure")
		if nH > 1 || nS > 1 {
			fail("dup-event", "manager listener got Healthy %d times, Stopped %d times", nH, nS)
		}
		if nH == 1 && !allRan {
			fail("healthy-wrong", "manager reported Healthy although a service never ran: %v", canon)
		}
		if viol == "" && (status == "done" || allTerminal) {
			if allTerminal != m.IsStopped() {
				fail("stopped-wrong", "IsStopped=%v but all services terminal=%v", m.IsStopped(), allTerminal)
			}
			if allTerminal && m.IsHealthy() {
				fail("healthy-wrong", "IsHealthy although every service is terminal")
			}
			if allTerminal && nS != 1 {
				fail("stopped-missing", "all services terminal but Stopped notified %d times", nS)
			}
			if !allTerminal && nS != 0 {
				fail("stopped-early", "Stopped notified although a service is not terminal")
			}
			if nF != failed && allTerminal {
				fail("failure-count", "%d services failed, %d Failure notifications", failed, nF)
			}
			if nS == 1 && nF > 0 && fLast > sSeq {
				fail("failure-after-stopped", "Failure notified after Stopped")
			}
			hTxt, hRet := "", int64(0)
			sTxtN, _, sRet := count("AwaitStopped ->")
			for _, evn := range log {
				if strings.HasPrefix(evn.Text, "AwaitHealthy ->") {
					hTxt, hRet = evn.Text, evn.Seq
				}
			}
			if allTerminal && (hRet == 0 || sTxtN == 0) {
				fail("waiter-stuck", "manager waiters did not return although all services are terminal (healthy:%q stopped:%d)", hTxt, sTxtN)
			}
			if hTxt == "AwaitHealthy -> nil=true" && nH == 0 {
				// Healthy is notified under the manager lock before AwaitHealthy can observe the state
				fail("await-healthy-wrong", "AwaitHealthy returned nil but Healthy was not reached before")
			}
			if hTxt == "AwaitHealthy -> nil=false" && !allRan {
				// fine
			}
			// (the stopped channel is closed before listeners are notified, so AwaitStopped and the Stopped
			// callback are unordered; only "all services terminal" is required, which allTerminal asserts)
			_ = sRet
			if sc.watch && allTerminal {
				if n, _, _ := count("FW "); n != failed {
					fail("watcher-count", "failure watcher delivered %d errors for %d failed services", n, failed)
				}
			}
		}
		res = sched.Result{Violation: viol, Key: key, Outcome: fmt.Sprintf("H%d S%d F%d term=%v", nH, nS, nF, allTerminal), Trace: append(traceCopy, canon...)}
		cancel()
		m.StopAsync()
		synctest.Wait()
		if fw != nil {
			fw.Close()
			<-fwDone
		}
		e.Teardown()
	})
	return
}

func TestC17Manager(t *testing.T) {
	rep := ev.NewReport("C17", "manager")
	bound := 2
	if ev.Thorough() {
		bound = 3
	}
	if b := os.Getenv("VERIF_BOUND"); b != "" {
		fmt.Sscan(b, &bound)
	}
	vecs := [][3]int{{oNil, oBlock, oNil}, {oErr, oNil, oNil}, {oNil, oErr, oNil}, {oNil, oNil, oErr}}
	var scs []mscenario
	for _, a := range vecs {
		for _, b := range vecs {
			scs = append(scs, mscenario{name: "m2", svcs: [][3]int{a, b}, stop: true})
		}
	}
	scs = append(scs, mscenario{name: "m2-watch", svcs: [][3]int{vecs[0], vecs[2]}, stop: true, watch: true},
		mscenario{name: "m2-watch", svcs: [][3]int{vecs[1], vecs[2]}, stop: false, watch: true},
		mscenario{name: "m2-nostop", svcs: [][3]int{vecs[2], vecs[3]}, stop: false},
		mscenario{name: "m2-nostop", svcs: [][3]int{vecs[0], vecs[2]}, stop: false}, // one service fails while the other keeps running
		mscenario{name: "m2-nostop", svcs: [][3]int{vecs[0], vecs[3]}, stop: false}, // one service stops by itself while the other keeps running
		mscenario{name: "m1", svcs: [][3]int{vecs[0]}, stop: true})
	if ev.Thorough() {
		scs = append(scs, mscenario{name: "m3", svcs: [][3]int{vecs[0], vecs[2], vecs[0]}, stop: true},
			mscenario{name: "m3", svcs: [][3]int{vecs[1], vecs[0], vecs[3]}, stop: true})
	}
	rep.Bound = fmt.Sprintf("%d manager scenarios: 1..2 (thorough 3) services with outcome vectors from {run blocks, start fails, run fails, stop fails}², StartAsync / StopAsync / AwaitHealthy / AwaitStopped threads, a manager listener, optionally a FailureWatcher; all schedules with <= %d delays (delay-bounded: every departure from the deterministic default order, also at blocking points, costs one) over the hook points of services/*.go", len(scs), bound)
	rep.Rule = "stateless DFS on the real Manager; oracle: Healthy/Stopped at most once, Healthy only if every service ran, Stopped iff all terminal, one Failure per failed service and none after Stopped, waiters return with the right answer, no deadlock, no crash; distinct_nontrivial = distinct (scenario, #Healthy, #Stopped, #Failure)"
	deadline := ev.Deadline(8 * time.Minute)
	for _, sc := range scs {
		x := &sched.Explorer{Bound: bound, Report: rep, Deadline: deadline, Scenario: sc.fullName(), Run: func(c *sched.Chooser) sched.Result { return runManager(t, sc, c) }}
		if !x.ExploreOrReplay() {
			rep.NotExhaustive("deadline or violation cap in " + sc.fullName())
			break
		}
		rep.Add("scenarios_completed", 1)
		if x.Execs > 50 {
			rep.Sample(fmt.Sprintf("%s: %d executions, %d distinct outcomes", sc.fullName(), x.Execs, x.Outcomes()))
		}
	}
	if err := rep.Write(); err != nil {
		t.Fatal(err)
	}
}

// ---------------- idle and timer services ----------------

func runTimer(t *testing.T, idle bool, ch *sched.Chooser) (res sched.Result) {
	synctest.Test(t, func(t *testing.T) {
		e := sched.NewExec(ch)
		e.MaxSteps = 3000
		e.Quantum = time.Second
		ticks := 0
		iters := 0
		var iterErrAt int
		stopRequested := false
		iter := func(ctx context.Context) error {
			sched.SetName("main")
			iters++
			n := iters
			k := sched.Choose("iteration", 2, false)
			sched.Obs(fmt.Sprintf("iteration %d outcome=%d ctxErr=%v", n, k, ctx.Err()))
			if k == 1 {
				iterErrAt = n
				return errRun
			}
			return nil
		}
		stopFn := func(err error) error {
			sched.SetName("main")
			sched.Yield("stop-enter")
			sched.Obs(fmt.Sprintf("stop-enter failure=%v", err))
			return nil
		}
		var svc *services.BasicService
		if idle {
			svc = services.NewIdleService(func(ctx context.Context) error {
				sched.SetName("main")
				sched.Yield("start-enter")
				sched.Obs("start-enter")
				return nil
			}, stopFn)
		} else {
			svc = services.NewTimerService(time.Second, nil, iter, stopFn)
		}
		svc.AddListener(lst{name: "L0"})
		// a tick is offered only while the service goroutine sits in its select (not parked inside an iteration)
		e.ClockOn = func() bool { return !idle && ticks < 3 && !e.ParkedInCond("main") && !stopRequested }
		e.OnClock = func() { ticks++ }
		e.Enable()
		e.Go("a-starter", func() { _ = svc.StartAsync(context.Background()) })
		e.Go("z-stopper", func() {
			stopRequested = true
			sched.Obs("stop-request")
			svc.StopAsync()
		})
		e.Go("w-terminated", func() {
			err := svc.AwaitTerminated(context.Background())
			sched.Obs(fmt.Sprintf("AwaitTerminated -> nil=%v", err == nil))
		})
		status := e.Run()
		log := e.Events()
		canon := e.CanonLog()
		trace := append([]string{}, e.Trace...)
		parked := e.Parked()
		e.Disable()
		synctest.Wait()
		var viol, key string
		fail := func(k, f string, a ...any) {
			if viol == "" {
				viol, key = fmt.Sprintf(f, a...), k
			}
		}
		if status != "done" {
			fail("deadlock", "execution did not finish: status=%s parked=%v log=%v", status, parked, canon)
		}
		var seq []string
		stopSeq := int64(0)
		stops := 0
		lastIter := int64(0)
		for _, evn := range log {
			switch {
			case strings.HasPrefix(evn.Text, "L0 "):
				seq = append(seq, strings.TrimPrefix(evn.Text, "L0 "))
			case strings.HasPrefix(evn.Text, "stop-enter"):
				stops++
				stopSeq = evn.Seq
			case strings.HasPrefix(evn.Text, "iteration "):
				lastIter = evn.Seq
			}
		}
		if !legalSequence(seq) {
			fail("illegal-transitions", "illegal transition sequence %v", seq)
		}
		final := svc.State()
		started := len(seq) > 0 && seq[0] == "Starting"
		if viol == "" && status == "done" {
			if started && final != services.Terminated && final != services.Failed {
				fail("not-terminal", "service ended in %v", final)
			}
			if started && stops != 1 {
				fail("stop-count", "stopping function ran %d times", stops)
			}
			if stopSeq != 0 && lastIter > stopSeq {
				fail("iteration-after-stop", "an iteration ran after the stopping function")
			}
			if iterErrAt != 0 {
				if final != services.Failed || svc.FailureCase() == nil || !errors.Is(svc.FailureCase(), errRun) {
					fail("iteration-error-lost", "iteration %d failed but the service ended %v with failure %v", iterErrAt, final, svc.FailureCase())
				}
				if iters > iterErrAt {
					fail("iteration-after-error", "%d iterations ran although iteration %d failed", iters, iterErrAt)
				}
			} else if started && final != services.Terminated {
				fail("final-state", "no function failed but the service ended %v (%v)", final, svc.FailureCase())
			}
			if iters > ticks {
				fail("iterations-without-tick", "%d iterations for %d ticks", iters, ticks)
			}
		}
		res = sched.Result{Violation: viol, Key: key, Outcome: fmt.Sprintf("%v|%v|iters=%d err@%d", seq, final, iters, iterErrAt), Trace: append(trace, canon...)}
		svc.StopAsync()
		e.Teardown()
	})
	return
}

func TestC17Timer(t *testing.T) {
	rep := ev.NewReport("C17", "idle-timer")
	bound := 3
	if ev.Thorough() {
		bound = 4
	}
	rep.Bound = fmt.Sprintf("idle service and timer service (interval 1 s, up to 3 ticks of the virtual clock as explorer choices, every iteration outcome nil/error), threads StartAsync / StopAsync / AwaitTerminated; all schedules with <= %d preemptions", bound)
	rep.Rule = "stateless DFS on the real NewIdleService / NewTimerService; oracle: legal transition sequence, stopping function exactly once, no iteration after it or after a failed iteration, an iteration error becomes the failure cause, terminal state reached, no deadlock; distinct_nontrivial = distinct (transition sequence, final state, iterations)"
	deadline := ev.Deadline(5 * time.Minute)
	for _, idle := range []bool{true, false} {
		name := "timer"
		if idle {
			name = "idle"
		}
		x := &sched.Explorer{Bound: bound, Report: rep, Deadline: deadline, Scenario: name, Run: func(c *sched.Chooser) sched.Result { return runTimer(t, idle, c) }}
		if !x.ExploreOrReplay() {
			rep.NotExhaustive("deadline or violation cap in " + name)
			break
		}
		rep.Sample(fmt.Sprintf("%s: %d executions, %d distinct outcomes", name, x.Execs, x.Outcomes()))
	}
	if err := rep.Write(); err != nil {
		t.Fatal(err)
	}
}
