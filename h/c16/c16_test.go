// C16 — generated tokens are unique, untaken, sorted; the spread-minimising generator is a pure,
// reproducible function with congruent, disjoint, evenly spread tokens. Engine E1.
package c16

import (
	"fmt"
	"slices"
	"sort"
	"sync"
	"testing"
	"time"

	"github.com/grafana/dskit/ring"

	"verif/enum"
	"verif/ev"
)

const M = ^uint32(0)

// scripted randomness: the first draws come from the script, afterwards a counter walks upwards
// from 3 (so a free value always exists and the generator terminates).
type scriptSrc struct {
	script []uint32
	pos    int
	next   uint32
	draws  int
	limit  int
}

func (s *scriptSrc) Int63() int64 {
	s.draws++
	if s.draws > max(10000, s.limit) {
		panic("generator does not terminate")
	}
	var v uint32
	if s.pos < len(s.script) {
		v = s.script[s.pos]
		s.pos++
	} else {
		v = s.next
		s.next++
	}
	return int64(v) << 31 // rand.Rand.Uint32() = uint32(Int63() >> 31)
}
func (s *scriptSrc) Seed(int64) {}

func TestC16Random(t *testing.T) {
	rep := ev.NewReport("C16", "random-generator")
	alpha := []uint32{0, 1, 2, M}
	L := 5
	rep.Bound = fmt.Sprintf("every sequence of %d scripted draws over %v (then a counter from 3 upwards), every taken set ⊆ %v, requested count -1..4; plus runs of 6..70, …, 9000 consecutive clashing draws (taken tokens, the generator's own earlier draws, or both in turn) before each of 1..3 requested tokens", L, alpha, alpha)
	rep.Rule = "real RandomTokenGenerator.GenerateTokens on an injected randomness source: no taken token, no duplicate, sorted, exactly the requested count (<=0 ⇒ empty), terminates; distinct_nontrivial = runs in which a draw collided with a taken token or an earlier draw"
	deadline := ev.Deadline(5 * time.Minute)
	nSeq := 1
	for i := 0; i < L; i++ {
		nSeq *= len(alpha)
	}
	total := nSeq * 16 * 6
	ok := enum.Par(total, deadline, func() bool { return rep.NumViolations() >= 20 }, func(ix int) {
		x := ix
		script := make([]uint32, L)
		for i := range script {
			script[i] = alpha[x%len(alpha)]
			x /= len(alpha)
		}
		takenMask := x % 16
		x /= 16
		req := x%6 - 1
		var taken []uint32
		for i, a := range alpha {
			if takenMask&(1<<i) != 0 {
				taken = append(taken, a)
			}
		}
		src := &scriptSrc{script: script, next: 3}
		g := ring.VerifNewRandomTokenGeneratorWithSource(src)
		var got ring.Tokens
		var perr any
		func() {
			defer func() { perr = recover() }()
			got = g.GenerateTokens(req, taken)
		}()
		rep.Eval(1)
		rep.Trans(1)
		cs := fmt.Sprintf("draws=%v taken=%v requested=%d", script, taken, req)
		bad := ""
		want := req
		if want < 0 {
			want = 0
		}
		switch {
		case perr != nil:
			bad = fmt.Sprint("panic: ", perr)
		case len(got) != want:
			bad = fmt.Sprintf("returned %d tokens %v", len(got), got)
		default:
			tk := map[uint32]bool{}
			for _, t := range taken {
				tk[t] = true
			}
			for i, t := range got {
				if tk[t] {
					bad = fmt.Sprintf("returned taken token %d (%v)", t, got)
				}
				if i > 0 && got[i-1] >= t {
					bad = fmt.Sprintf("not sorted/unique: %v", got)
				}
			}
		}
		if bad != "" {
			rep.Violate("rand:"+cs, cs+": "+bad, map[string]any{"ix": ix})
		}
		if src.draws > want {
			rep.Distinct(cs)
		}
		if ix%(total/4+1) == 3 {
			rep.Sample(cs + fmt.Sprintf(" → %v", got))
		}
	})
	if !ok {
		rep.NotExhaustive("deadline or violation cap")
	}
	// Dense spaces: long runs of consecutive clashes. The source answers a taken token (or one of the generator's own
	// earlier draws, or both in turn) n times in a row before the next free one; "the requested count whenever that
	// many free tokens exist" has no limit on how many clashes come first.
	var runs []int
	for n := 6; n <= 70; n++ {
		runs = append(runs, n)
	}
	runs = append(runs, 99, 100, 101, 127, 128, 129, 255, 256, 257, 500, 511, 512, 513, 1000, 1023, 1024, 1025, 2000, 4095, 4096, 4097, 9000)
	for _, n := range runs {
		for req := 1; req <= 3; req++ {
			for g := 0; g < req; g++ { // the run comes before the (g+1)-th accepted token
				for kind := 0; kind < 3; kind++ { // 0 taken tokens, 1 own earlier draws, 2 both in turn
					if kind >= 1 && g == 0 {
						continue
					}
					taken := []uint32{0, 1, M}
					var script []uint32
					for i := 0; i < g; i++ {
						script = append(script, uint32(10+i))
					}
					for i := 0; i < n; i++ {
						switch {
						case kind == 0 || (kind == 2 && i%2 == 0):
							script = append(script, taken[i%len(taken)])
						default:
							script = append(script, uint32(10+i%g))
						}
					}
					src := &scriptSrc{script: script, next: 100, limit: 30000}
					gen := ring.VerifNewRandomTokenGeneratorWithSource(src)
					var got ring.Tokens
					var perr any
					func() {
						defer func() { perr = recover() }()
						got = gen.GenerateTokens(req, taken)
					}()
					rep.Eval(1)
					rep.Trans(1)
					cs := fmt.Sprintf("taken=%v requested=%d: %d free draws, then %d clashing draws in a row (kind %d: 0 taken tokens, 1 own earlier draws, 2 both in turn), then free values 100..", taken, req, g, n, kind)
					var want []uint32
					for i := 0; i < g; i++ {
						want = append(want, uint32(10+i))
					}
					for i := g; i < req; i++ {
						want = append(want, uint32(100+i-g))
					}
					switch {
					case perr != nil:
						rep.Violate("randrun:"+cs, cs+": panic: "+fmt.Sprint(perr), nil)
					case !slices.Equal([]uint32(got), want):
						rep.Violate("randrun:"+cs, fmt.Sprintf("%s: returned %v, want the %d free values drawn %v", cs, got, req, want), nil)
					}
					rep.Distinct(cs)
				}
			}
		}
	}
	rep.State(rep.Evaluations)
	rep.Trace(rep.Evaluations)
	if err := rep.Write(); err != nil {
		t.Fatal(err)
	}
}

func ownershipSpread(tokens []uint32, owners []int32, n int) (spread float64, minO, maxO int64) {
	own := make([]int64, n)
	for i, t := range tokens {
		var prev uint32
		if i == 0 {
			prev = tokens[len(tokens)-1]
		} else {
			prev = tokens[i-1]
		}
		d := int64(t) - int64(prev)
		if d <= 0 {
			d += 1 << 32
		}
		own[owners[i]] += d
	}
	minO, maxO = own[0], own[0]
	for _, o := range own {
		if o < minO {
			minO = o
		}
		if o > maxO {
			maxO = o
		}
	}
	return 1 - float64(minO)/float64(maxO), minO, maxO
}

func TestC16SpreadMinimizing(t *testing.T) {
	rep := ev.NewReport("C16", "spread-minimizing")
	N, ownLimit, nPart := 1300, 96, 64
	if ev.Thorough() {
		N, ownLimit, nPart = 2000, 256, 192
	}
	rep.Bound = fmt.Sprintf("zone indexes 0..7, instance indexes 0..%d (indexes <= "+fmt.Sprint(ownLimit)+" and every 256th computed by their own generator, all others read from the largest generator and checked for order, congruence, disjointness and spread), every prefix 0..m, GenerateTokens with requested ∈ {0,1,511,512,513} × taken ∈ {∅, first, all, all but one, foreign tokens followed by 300 own ones (unsorted), every other own token in descending order}, partition rings built by AddPartition 0..%d", N, nPart)
	rep.Rule = "per (zone, index): 512 sorted distinct tokens ≡ zone (mod 8), equal to what the generator of the largest index attributes to that index, disjoint from every other (index, zone); for every prefix of instances the per-instance ownership spread 1-min/max <= 1%; distinct_nontrivial = (zone,index) pairs checked"
	deadline := ev.Deadline(15 * time.Minute)
	var mu sync.Mutex
	all := map[uint32]string{} // token -> "zone/index" across all zones
	byZone := make([]map[int]ring.Tokens, 8)
	// reference: tokens-by-instance of the generator for N, per zone
	for z := 0; z < 8; z++ {
		g := ring.NewSpreadMinimizingTokenGeneratorForInstanceAndZoneID("inst-", N, z, false)
		m, err := g.VerifTokensByInstanceID()
		if err != nil {
			rep.Violate(fmt.Sprintf("sm:gen:z%d", z), fmt.Sprintf("zone %d: generator for index %d failed: %v", z, N, err), nil)
			continue
		}
		byZone[z] = m
	}
	ok := enum.Par(8*(N+1), deadline, func() bool { return rep.NumViolations() >= 20 }, func(ix int) {
		z, k := ix%8, ix/8
		if byZone[z] == nil {
			return
		}
		cs := fmt.Sprintf("zone=%d index=%d", z, k)
		g := ring.NewSpreadMinimizingTokenGeneratorForInstanceAndZoneID("inst-", k, z, false)
		var toks ring.Tokens
		var perr any
		own := k <= ownLimit || k%256 == 0 || k == N // indexes computed by their own generator (O(k) each); the rest is read from the largest generator's table
		if own {
			func() {
				defer func() { perr = recover() }()
				toks = g.GenerateTokens(512, nil)
			}()
		} else {
			toks = append(ring.Tokens(nil), byZone[z][k]...)
			sort.Slice(toks, func(i, j int) bool { return toks[i] < toks[j] })
		}
		rep.Eval(1)
		if perr != nil {
			rep.Violate("sm:panic:"+cs, cs+": panic "+fmt.Sprint(perr), nil)
			return
		}
		if len(toks) != 512 {
			rep.Violate("sm:len:"+cs, fmt.Sprintf("%s: %d tokens", cs, len(toks)), nil)
		}
		for i, tk := range toks {
			if i > 0 && toks[i-1] >= tk {
				rep.Violate("sm:sort:"+cs, cs+": tokens not sorted/unique", nil)
				break
			}
			if tk%8 != uint32(z) {
				rep.Violate("sm:mod:"+cs, fmt.Sprintf("%s: token %d ≢ zone (mod 8)", cs, tk), nil)
				break
			}
		}
		// reproducibility: equal to what the generator for N attributes to k
		ref := append(ring.Tokens(nil), byZone[z][k]...)
		sort.Slice(ref, func(i, j int) bool { return ref[i] < ref[j] })
		if !slices.Equal([]uint32(ref), []uint32(toks)) {
			rep.Violate("sm:repro:"+cs, fmt.Sprintf("%s: tokens computed by the instance itself differ from those the generator of index %d attributes to it", cs, N), nil)
		}
		// second call: same answer (pure)
		if again := toks; own && k <= 64 && fmt.Sprint(g.GenerateTokens(512, nil)) != fmt.Sprint(again) {
			rep.Violate("sm:pure:"+cs, cs+": second call returns different tokens", nil)
		}
		mu.Lock()
		for _, tk := range toks {
			if o, dup := all[tk]; dup {
				rep.Violate("sm:dup:"+cs, fmt.Sprintf("%s: token %d also generated for %s", cs, tk, o), nil)
				break
			}
			all[tk] = fmt.Sprintf("%d/%d", z, k)
		}
		mu.Unlock()
		// GenerateTokens(n, taken) filters in order
		if own && (k%8 == 0 || k == N) && (k <= 64 || k == N) {
			for _, n := range []int{0, 1, 511, 512, 513} {
				// the taken set is a set: its order must not matter (foreign tokens first then own ones, descending, ...)
				foreign := []uint32{toks[0] + 1, toks[len(toks)/2] + 1, toks[len(toks)-1] + 1, 5}
				mixed := append(append([]uint32(nil), foreign...), toks[:300]...)
				desc := make([]uint32, 0, 200)
				for i := 199; i >= 0; i-- {
					desc = append(desc, toks[i*2])
				}
				takens := [][]uint32{nil, {toks[0]}, toks, toks[1:], mixed, desc}
				for ti, taken := range takens {
					got := g.GenerateTokens(n, taken)
					rep.Eval(1)
					tk := map[uint32]bool{}
					for _, x := range taken {
						tk[x] = true
					}
					var want []uint32
					for _, x := range toks {
						if !tk[x] && len(want) < n {
							want = append(want, x)
						}
					}
					if fmt.Sprint([]uint32(got)) != fmt.Sprint(want) && !(len(got) == 0 && len(want) == 0) {
						rep.Violate(fmt.Sprintf("sm:filter:%s:n%d:t%d", cs, n, ti), fmt.Sprintf("%s: GenerateTokens(%d, taken#%d) returned %d tokens, want the first %d untaken of its 512", cs, n, ti, len(got), len(want)), nil)
					}
				}
			}
		}
		rep.Distinct(cs)
		rep.State(1)
		if k == N/2 && z < 2 {
			rep.Sample(fmt.Sprintf("%s: first tokens %v", cs, toks[:4]))
		}
	})
	if !ok {
		rep.NotExhaustive("deadline or violation cap")
	}
	// ownership spread for every prefix, per zone (incremental insertion)
	if ok {
		okk := enum.Par(8, deadline, nil, func(z int) {
			if byZone[z] == nil {
				return
			}
			var tokens []uint32
			var owners []int32
			for m := 0; m <= N; m++ {
				add := append([]uint32(nil), byZone[z][m]...)
				sort.Slice(add, func(i, j int) bool { return add[i] < add[j] })
				merged := make([]uint32, 0, len(tokens)+len(add))
				mo := make([]int32, 0, len(tokens)+len(add))
				i, j := 0, 0
				for i < len(tokens) || j < len(add) {
					if j >= len(add) || (i < len(tokens) && tokens[i] < add[j]) {
						merged = append(merged, tokens[i])
						mo = append(mo, owners[i])
						i++
					} else {
						merged = append(merged, add[j])
						mo = append(mo, int32(m))
						j++
					}
				}
				tokens, owners = merged, mo
				spread, minO, maxO := ownershipSpread(tokens, owners, m+1)
				rep.Eval(1)
				rep.Trans(1)
				if spread > 0.01 {
					rep.Violate(fmt.Sprintf("sm:spread:z%d:m%d", z, m), fmt.Sprintf("zone %d with instances 0..%d: ownership spread %.4f%% (min %d max %d) exceeds 1%%", z, m, spread*100, minO, maxO), nil)
				}
			}
		})
		if !okk {
			rep.NotExhaustive("deadline in spread computation")
		}
	}
	// partition rings: AddPartition 0..N/2
	desc := ring.NewPartitionRingDesc()
	seen := map[uint32]int32{}
	now := time.Unix(1000, 0)
	for p := int32(0); p <= int32(nPart); p++ {
		desc.AddPartition(p, ring.PartitionActive, now)
		toks := desc.Partitions[p].Tokens
		rep.Eval(1)
		ref := append(ring.Tokens(nil), byZone[0][int(p)]...)
		sort.Slice(ref, func(i, j int) bool { return ref[i] < ref[j] })
		if len(toks) != 512 || fmt.Sprint(ring.Tokens(toks)) != fmt.Sprint(ref) {
			rep.Violate(fmt.Sprintf("sm:part:%d", p), fmt.Sprintf("partition %d: tokens differ from the generator's tokens for (index %d, zone 0)", p, p), nil)
		}
		for _, tk := range toks {
			if o, dup := seen[tk]; dup {
				rep.Violate(fmt.Sprintf("sm:partdup:%d", p), fmt.Sprintf("partition %d shares token %d with partition %d", p, tk, o), nil)
				break
			}
			seen[tk] = p
		}
	}
	rep.Trace(rep.Evaluations)
	if err := rep.Write(); err != nil {
		t.Fatal(err)
	}
}
