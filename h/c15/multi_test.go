package c15

import (
	"errors"
	"fmt"
	"sort"
	"strconv"
	"testing"
	"time"

	"github.com/grafana/dskit/ring"

	"verif/enum"
	"verif/ev"
)

// TestC15MultiReplicationSets — the multi-partition-owner variant (an instance may own several partitions;
// owner ids carry a "/<partition>" suffix): MultiPartitionInstanceRing.GetReplicationSetForPartitionAndOperation.
// Documented choice: among the partition's healthy registered owners ONE per zone — a writable one before a
// read-only one, then the highest numeric instance-name suffix — zone-aware with all zones but one allowed
// to be unavailable; "no owners" and "no healthy owner" are errors.
//
// Reference (shares no code): filter the owners independently, group by zone, pick by the documented order.

// candidate status: 0 not an owner of the partition; 1 healthy writable; 2 healthy read-only; 3 stale heartbeat;
// 4 unknown to the instance ring; 5 owner of ANOTHER partition only (must never appear)
const nMStatus = 6

func refSuffix(id string) int {
	i := len(id)
	for i > 0 && id[i-1] >= '0' && id[i-1] <= '9' {
		i--
	}
	if i == len(id) {
		return int(^uint(0) >> 1)
	}
	n, err := strconv.Atoi(id[i:])
	if err != nil {
		return int(^uint(0) >> 1)
	}
	return n
}

func TestC15MultiReplicationSets(t *testing.T) {
	rep := ev.NewReport("C15", "multi-partition-replication-sets")
	// names chosen so that numeric and lexical order of the suffixes disagree ("10" vs "9"), plus one name without a suffix
	names := []string{"ing-9", "ing-10", "ing-2", "ingx", "ing-07"}
	zoneLayouts := [][]string{{"a", "a", "a", "a", "a"}, {"a", "a", "b", "b", "a"}, {"a", "b", "a", "b", "c"}, {"", "", "", "", ""}}
	rep.Bound = fmt.Sprintf("partition 0 with 5 candidate owners %v, each: not an owner | healthy writable | healthy read-only | stale heartbeat | unknown to the instance ring | owner of partition 1 only; %d zone layouts; every order in which the owners are listed in the descriptor is not enumerable (a Go map) — the pick must not depend on it; ops Read and Write; also a partition that does not exist", names, len(zoneLayouts))
	rep.Rule = "real MultiPartitionInstanceRing.GetReplicationSetForPartitionAndOperation vs an independent reference: one instance per zone of the healthy registered owners of that partition — writable before read-only, then the highest numeric name suffix (no suffix = highest) — zone-aware with MaxUnavailableZones = #zones-1; ErrEmptyRing when the partition has no owner, ErrTooManyUnhealthyInstances when none is healthy; distinct_nontrivial = cases where some zone had to choose between two or more healthy owners"
	deadline := ev.Deadline(10 * time.Minute)
	const hb = time.Minute
	enum.Frozen(t, func() {
		now := time.Now()
		count := ipow(nMStatus, len(names)) * len(zoneLayouts)
		ok := enum.Par(count, deadline, func() bool { return rep.NumViolations() >= 20 }, func(idx int) {
			x := idx
			st := make([]int, len(names))
			for i := range st {
				st[i] = x % nMStatus
				x /= nMStatus
			}
			zl := zoneLayouts[x%len(zoneLayouts)]
			desc := ring.NewPartitionRingDesc()
			desc.Partitions[0] = ring.PartitionDesc{Id: 0, Tokens: []uint32{10}, State: ring.PartitionActive, StateTimestamp: 1}
			desc.Partitions[1] = ring.PartitionDesc{Id: 1, Tokens: []uint32{20}, State: ring.PartitionActive, StateTimestamp: 1}
			insts := map[string]ring.InstanceDesc{}
			type cand struct {
				id   string
				zone string
				ro   bool
			}
			var healthy []cand
			owners := 0
			for i, name := range names {
				s := st[i]
				if s == 0 {
					continue
				}
				p := int32(0)
				if s == 5 {
					p = 1
				}
				desc.Owners[fmt.Sprintf("%s/%d", name, p)] = ring.OwnerDesc{OwnedPartition: p, State: ring.OwnerActive, UpdatedTimestamp: 1}
				in := ring.InstanceDesc{Id: name, Addr: name, Zone: zl[i], State: ring.ACTIVE, Timestamp: now.Add(-hb).Unix(), Tokens: []uint32{uint32(100 + i)}}
				switch s {
				case 2:
					in.ReadOnly, in.ReadOnlyUpdatedTimestamp = true, now.Add(-time.Hour).Unix()
				case 3:
					in.Timestamp = now.Add(-hb - time.Second).Unix()
				}
				if s != 4 {
					insts[name] = in
				}
				if s != 5 {
					owners++
				}
				if s == 1 || s == 2 {
					healthy = append(healthy, cand{name, zl[i], s == 2})
				}
			}
			// reference pick
			byZone := map[string][]cand{}
			for _, c := range healthy {
				byZone[c.zone] = append(byZone[c.zone], c)
			}
			var want []string
			choice := false
			for _, cs := range byZone {
				if len(cs) > 1 {
					choice = true
				}
				sort.Slice(cs, func(i, j int) bool {
					if cs[i].ro != cs[j].ro {
						return !cs[i].ro
					}
					return refSuffix(cs[i].id) > refSuffix(cs[j].id)
				})
				want = append(want, cs[0].id)
			}
			sort.Strings(want)
			pr, err := ring.NewPartitionRing(*desc)
			if err != nil {
				panic(err)
			}
			mr := ring.NewMultiPartitionInstanceRing(staticReader{pr}, instReader{insts}, hb)
			caseStr := fmt.Sprintf("status=%v (of %v) zones=%v", st, names, zl)
			for oi, o := range []ring.Operation{ring.Read, ring.Write} {
				opName := []string{"Read", "Write"}[oi]
				set, err := mr.GetReplicationSetForPartitionAndOperation(0, o)
				rep.Eval(1)
				rep.Trans(1)
				switch {
				case owners == 0:
					if !errors.Is(err, ring.ErrEmptyRing) {
						rep.Violate("mrs:noowner:"+caseStr, fmt.Sprintf("%s: partition 0 has no owner, want ErrEmptyRing, got set=%v err=%v", caseStr, set.Instances, err), nil)
					}
					continue
				case len(healthy) == 0:
					if !errors.Is(err, ring.ErrTooManyUnhealthyInstances) {
						rep.Violate("mrs:nohealthy:"+caseStr, fmt.Sprintf("%s: partition 0 has no healthy owner, want ErrTooManyUnhealthyInstances, got set=%v err=%v", caseStr, set.Instances, err), nil)
					}
					continue
				case err != nil:
					rep.Violate("mrs:err:"+caseStr, fmt.Sprintf("%s: unexpected error %v", caseStr, err), nil)
					continue
				}
				var got []string
				for _, in := range set.Instances {
					got = append(got, in.Id)
				}
				sort.Strings(got)
				if fmt.Sprint(got) != fmt.Sprint(want) {
					rep.Violate("mrs:members:"+caseStr, fmt.Sprintf("%s op=%s: replication set %v, want one per zone by (writable first, highest suffix): %v", caseStr, opName, got, want), nil)
				}
				if !set.ZoneAwarenessEnabled || set.MaxUnavailableZones != len(byZone)-1 || set.MaxErrors != 0 {
					rep.Violate("mrs:tol:"+caseStr, fmt.Sprintf("%s: set %v has ZoneAwarenessEnabled=%v MaxUnavailableZones=%d MaxErrors=%d, want zone-aware with %d", caseStr, got, set.ZoneAwarenessEnabled, set.MaxUnavailableZones, set.MaxErrors, len(byZone)-1), nil)
				}
			}
			if _, err := mr.GetReplicationSetForPartitionAndOperation(7, ring.Read); err == nil {
				rep.Violate("mrs:ghost:"+caseStr, caseStr+": a replication set was returned for partition 7, which does not exist", nil)
			}
			rep.State(1)
			if choice {
				rep.Distinct(fmt.Sprint(idx))
			}
			if idx%(count/3+1) == 17 {
				rep.Sample(caseStr)
			}
		})
		if !ok {
			rep.NotExhaustive("deadline or violation cap")
		}
	})
	rep.Trace(rep.Transitions)
	if err := rep.Write(); err != nil {
		t.Fatal(err)
	}
}
