package gossip

import (
	"context"
	"fmt"
	"runtime"
	"runtime/debug"
	"sort"
	"sync"
	"testing"
	"testing/synctest"
	"time"

	"github.com/go-kit/log"

	"github.com/grafana/dskit/kv/codec"
	"github.com/grafana/dskit/kv/memberlist"
	"github.com/grafana/dskit/ring"

	"verif/ev"
)

// TestC06StateBlob: a full-state (push/pull) payload carrying SEVERAL keys, in every frame order, with
// every truncation and every single-byte substitution, delivered to a receiver that watches every key
// (WatchKey per key and one WatchPrefix): whatever part of the payload the receiver merged, each
// watcher of a key whose value changed has been called with the value the store now exposes; then the
// intact payload is delivered ("the network heals") and every key must be equal to the sender's value
// with every watcher last called with it.
func TestC06StateBlob(t *testing.T) {
	rep := ev.NewReport("C06", "stateblob")
	rep.Bound = "sender holding 2..3 keys (ring codec and partition-ring codec), receiver empty or already holding an older full state; every order of the frames of the sender's full state; every truncation length, every single-byte substitution by 0x00 / 0xFF and every frame length prefix overwritten with boundary values (0, 1, len±1, 2^31-1, 2^31, 2^32-5..2^32-1) of the payload; then the intact payload"
	rep.Rule = "MergeRemoteState on the real detached node with WatchKey watchers on every key and a WatchPrefix watcher: after the mutated payload, for every key whose exposed value differs from the one before, the key watcher and the prefix watcher were last called with exactly that value (and no watcher was called with anything but the exposed value); after the intact payload every key equals the sender's value and every watcher was last called with it; no panic; distinct_nontrivial = distinct (order, mutation) whose payload merged a strict, non-empty subset of the keys"

	ctx := context.Background()
	regIn := func(key, id string, tokens []uint32) func(map[string]*memberlist.Client) {
		return func(cli map[string]*memberlist.Client) {
			err := cli[key].CAS(ctx, key, func(in interface{}) (interface{}, bool, error) {
				d := ring.GetOrCreateRingDesc(in)
				now := time.Now().Unix()
				d.Ingesters[id] = ring.InstanceDesc{Id: id, Addr: id, Zone: "z", State: ring.ACTIVE, Timestamp: now, Tokens: tokens, RegisteredTimestamp: now}
				return d, true, nil
			})
			if err != nil {
				panic(err)
			}
		}
	}
	removeIn := func(key, id string) func(map[string]*memberlist.Client) {
		return func(cli map[string]*memberlist.Client) {
			err := cli[key].CAS(ctx, key, func(in interface{}) (interface{}, bool, error) {
				d := ring.GetOrCreateRingDesc(in)
				delete(d.Ingesters, id)
				return d, true, nil
			})
			if err != nil {
				panic(err)
			}
		}
	}
	addPartition := func(key string, pid int32) func(map[string]*memberlist.Client) {
		return func(cli map[string]*memberlist.Client) {
			err := cli[key].CAS(ctx, key, func(in interface{}) (interface{}, bool, error) {
				d := ring.GetOrCreatePartitionRingDesc(in)
				d.AddPartition(pid, ring.PartitionActive, time.Now())
				return d, true, nil
			})
			if err != nil {
				panic(err)
			}
		}
	}
	keysCodec := map[string]codec.Codec{"ringA": ring.GetCodec(), "ringB": ring.GetCodec(), "pring": ring.GetPartitionRingCodec()}
	type config struct {
		name  string
		keys  []string
		older []func(map[string]*memberlist.Client) // state the receiver already holds (nil = empty receiver)
		newer []func(map[string]*memberlist.Client) // what the sender did afterwards
	}
	configs := []config{
		{"two-rings/empty-receiver", []string{"ringA", "ringB"}, nil, []func(map[string]*memberlist.Client){regIn("ringA", "x", []uint32{1, 2}), regIn("ringB", "y", []uint32{3})}},
		{"ring+partitions/empty-receiver", []string{"ringA", "pring"}, nil, []func(map[string]*memberlist.Client){regIn("ringA", "x", []uint32{1, 2}), addPartition("pring", 1)}},
		{"two-rings/receiver-holds-older", []string{"ringA", "ringB"}, []func(map[string]*memberlist.Client){regIn("ringA", "x", []uint32{1, 2}), regIn("ringB", "y", []uint32{3})},
			[]func(map[string]*memberlist.Client){removeIn("ringA", "x"), regIn("ringB", "z", []uint32{4})}},
		{"three-keys/empty-receiver", []string{"ringA", "ringB", "pring"}, nil, []func(map[string]*memberlist.Client){regIn("ringA", "x", []uint32{1}), regIn("ringB", "y", []uint32{3}), addPartition("pring", 1)}},
	}

	newNode := func() (*memberlist.KV, map[string]*memberlist.Client) {
		cfg := memberlist.KVConfig{RetransmitMult: 1, LeftIngestersTimeout: retention, ObsoleteEntriesTimeout: obsoleteTime, ProcessedMessagesQueueSize: 16, WatchPrefixBufferSize: 128, // the flag default (0 would make the channel unbuffered and droppable by design)
			Codecs: []codec.Codec{ring.GetCodec(), ring.GetPartitionRingCodec()}}
		kv, err := memberlist.VerifNewDetachedKV(cfg, log.NewNopLogger(), func() int { return 2 })
		if err != nil {
			panic(err)
		}
		clis := map[string]*memberlist.Client{}
		for k, cd := range keysCodec {
			c, err := memberlist.NewClient(kv, cd)
			if err != nil {
				panic(err)
			}
			clis[k] = c
		}
		return kv, clis
	}
	show := func(key string, v interface{}) string {
		if v == nil {
			return "<nil>"
		}
		switch d := v.(type) {
		case *ring.Desc:
			var ids []string
			for id, in := range d.Ingesters {
				ids = append(ids, fmt.Sprintf("%s:%s@%d%v", id, in.State, in.Timestamp, in.Tokens))
			}
			sort.Strings(ids)
			return fmt.Sprint(ids)
		case *ring.PartitionRingDesc:
			var ids []string
			for id, p := range d.Partitions {
				ids = append(ids, fmt.Sprintf("P%d:%s@%d", id, p.State, p.StateTimestamp))
			}
			sort.Strings(ids)
			return fmt.Sprint(ids)
		}
		return fmt.Sprintf("%T", v)
	}
	frames := func(blob []byte) [][]byte {
		var out [][]byte
		for len(blob) >= 4 {
			l := int(uint32(blob[0])<<24 | uint32(blob[1])<<16 | uint32(blob[2])<<8 | uint32(blob[3]))
			out = append(out, blob[:4+l])
			blob = blob[4+l:]
		}
		if len(blob) != 0 {
			panic("HARNESS: LocalState is not a sequence of frames")
		}
		return out
	}
	var perms func(n int) [][]int
	perms = func(n int) [][]int {
		if n == 1 {
			return [][]int{{0}}
		}
		var out [][]int
		for _, p := range perms(n - 1) {
			for pos := 0; pos <= len(p); pos++ {
				q := append(append(append([]int{}, p[:pos]...), n-1), p[pos:]...)
				out = append(out, q)
			}
		}
		return out
	}

	for _, cf := range configs {
		var olderBlob, newerBlob []byte
		want := map[string]string{}
		synctest.Test(t, func(t *testing.T) {
			kv, clis := newNode()
			defer func() { kv.VerifShutdown(); synctest.Wait() }()
			for _, f := range cf.older {
				f(clis)
			}
			if cf.older != nil {
				olderBlob = kv.LocalState(false)
				time.Sleep(2 * time.Second) // the sender's later writes carry later timestamps
			}
			for _, f := range cf.newer {
				f(clis)
			}
			newerBlob = kv.LocalState(false)
			for _, k := range cf.keys {
				v, _ := clis[k].Get(ctx, k)
				want[k] = show(k, v)
			}
		})
		fr := frames(newerBlob)
		if len(fr) != len(cf.keys) {
			panic(fmt.Sprintf("HARNESS: %d frames for %d keys", len(fr), len(cf.keys)))
		}
		type mut struct {
			data  []byte
			what  string
			trunc bool // a prefix of the sender's payload: whatever merges is part of the sender's state
		}
		var muts []mut
		for _, p := range perms(len(fr)) {
			var src []byte
			for _, i := range p {
				src = append(src, fr[i]...)
			}
			label := fmt.Sprintf("frames in order %v", p)
			for l := 0; l <= len(src); l++ {
				muts = append(muts, mut{append([]byte(nil), src[:l]...), fmt.Sprintf("%s truncated to %d of %d", label, l, len(src)), true})
			}
			// every frame's 4-byte length prefix overwritten with boundary values (wrap-around of "4 + length" included)
			for off := 0; off < len(src); {
				l := int(uint32(src[off])<<24 | uint32(src[off+1])<<16 | uint32(src[off+2])<<8 | uint32(src[off+3]))
				for _, v := range []uint32{0, 1, uint32(l - 1), uint32(l + 1), 0x7FFFFFFF, 0x80000000, 0xFFFFFFFB, 0xFFFFFFFC, 0xFFFFFFFD, 0xFFFFFFFE, 0xFFFFFFFF} {
					d := append([]byte(nil), src...)
					d[off], d[off+1], d[off+2], d[off+3] = byte(v>>24), byte(v>>16), byte(v>>8), byte(v)
					muts = append(muts, mut{d, fmt.Sprintf("%s length prefix at %d := %#x", label, off, v), false})
				}
				off += 4 + l
			}
			for i := range src {
				for _, v := range []byte{0x00, 0xFF} {
					if src[i] == v {
						continue
					}
					d := append([]byte(nil), src...)
					d[i] = v
					muts = append(muts, mut{d, fmt.Sprintf("%s byte %d := %#x", label, i, v), false})
				}
			}
		}
		var wg sync.WaitGroup
		var imu sync.Mutex
		idx := -1
		// A substitution inside the snappy length prefix of a value makes the decoder allocate what the prefix
		// announces (up to 4 GiB, freed at once when decoding then fails): few workers and an eager collector keep
		// the worker inside its address-space limit.
		defer debug.SetGCPercent(debug.SetGCPercent(50))
		for w := 0; w < min(4, runtime.GOMAXPROCS(0)); w++ {
			wg.Add(1)
			go func() {
				defer wg.Done()
				for {
					imu.Lock()
					idx++
					k := idx
					imu.Unlock()
					if k >= len(muts) || rep.NumViolations() >= 10 {
						return
					}
					m := muts[k]
					cs := cf.name + ": " + m.what
					synctest.Test(t, func(t *testing.T) {
						kv, clis := newNode()
						wctx, cancel := context.WithCancel(ctx)
						defer func() { cancel(); kv.VerifShutdown(); synctest.Wait() }()
						var wmu sync.Mutex
						keyLast, prefLast := map[string]string{}, map[string]string{}
						keyN := map[string]int{}
						for _, key := range cf.keys {
							go clis[key].WatchKey(wctx, key, func(v interface{}) bool {
								wmu.Lock()
								keyLast[key] = show(key, v)
								keyN[key]++
								wmu.Unlock()
								return true
							})
						}
						// the prefix watcher decodes with the ring codec: register it for the ring keys only
						go clis["ringA"].WatchPrefix(wctx, "ring", func(key string, v interface{}) bool {
							wmu.Lock()
							prefLast[key] = show(key, v)
							wmu.Unlock()
							return true
						})
						synctest.Wait()
						if olderBlob != nil {
							kv.MergeRemoteState(olderBlob, false)
							synctest.Wait()
						}
						exposed := func() map[string]string {
							out := map[string]string{}
							for _, key := range cf.keys {
								v, err := clis[key].Get(ctx, key)
								if err != nil {
									out[key] = "ERR " + err.Error()
								} else {
									out[key] = show(key, v)
								}
							}
							return out
						}
						before := exposed()
						checkWatchers := func(stage string, changedSince map[string]string) (nChanged int) {
							now := exposed()
							wmu.Lock()
							defer wmu.Unlock()
							for _, key := range cf.keys {
								if now[key] == changedSince[key] {
									continue
								}
								nChanged++
								if keyLast[key] != now[key] {
									rep.Violate("C06:stateblob:watchkey:"+cs+":"+key, fmt.Sprintf("%s, %s: key %s changed from %s to %s but its WatchKey watcher was last called with %q (%d calls)", cs, stage, key, changedSince[key], now[key], keyLast[key], keyN[key]), nil)
								}
								if key != "pring" && prefLast[key] != now[key] {
									rep.Violate("C06:stateblob:watchprefix:"+cs+":"+key, fmt.Sprintf("%s, %s: key %s changed from %s to %s but the WatchPrefix watcher was last called with %q for it", cs, stage, key, changedSince[key], now[key], prefLast[key]), nil)
								}
							}
							for _, key := range cf.keys {
								if l, ok := keyLast[key]; ok && l != now[key] {
									rep.Violate("C06:stateblob:stale:"+cs+":"+key, fmt.Sprintf("%s, %s: the watcher of %s was last called with %s but the store exposes %s", cs, stage, key, l, now[key]), nil)
								}
							}
							return
						}
						var perr any
						func() {
							defer func() { perr = recover() }()
							kv.MergeRemoteState(m.data, false)
						}()
						synctest.Wait()
						rep.Eval(1)
						rep.Trans(2)
						if perr != nil {
							rep.Violate("C06:stateblob:panic:"+cs, fmt.Sprintf("%s: panic %v", cs, perr), nil)
							return
						}
						n := checkWatchers("after the mutated payload", before)
						if n > 0 && n < len(cf.keys) {
							rep.Distinct(cs)
						}
						// the network heals: the intact payload arrives
						kv.MergeRemoteState(newerBlob, false)
						synctest.Wait()
						checkWatchers("after the intact payload", before)
						now := exposed()
						for _, key := range cf.keys {
							if m.trunc && now[key] != want[key] {
								rep.Violate("C06:stateblob:diverged:"+cs+":"+key, fmt.Sprintf("%s: after the intact payload key %s is %s, the sender has %s", cs, key, now[key], want[key]), nil)
							}
						}
						if k%397 == 0 {
							rep.Sample(cs)
						}
					})
				}
			}()
		}
		wg.Wait()
		rep.State(int64(len(muts)))
	}
	rep.Trace(rep.Transitions)
	if err := rep.Write(); err != nil {
		t.Fatal(err)
	}
}
