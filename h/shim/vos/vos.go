// Package vos is an in-memory stand-in for the parts of package os that ring/tokens.go uses
// (via -overlay import rewriting). It records every mutation so that a harness can materialise
// the directory image after a crash at any point, with the last write torn at any byte.
package vos

import (
	"io"
	"os"
	"sort"
	"sync"
	"syscall"
	"time"
)

type Op struct {
	Kind string // create (create or truncate) | touch (create if absent, keep content) | write | sync | close | rename | remove
	Name string
	To   string
	Off  int // write: offset
	Data []byte
}

// the subset of package os's API surface that file-writing code in dskit may reasonably use
const (
	O_RDONLY = os.O_RDONLY
	O_WRONLY = os.O_WRONLY
	O_RDWR   = os.O_RDWR
	O_APPEND = os.O_APPEND
	O_CREATE = os.O_CREATE
	O_EXCL   = os.O_EXCL
	O_SYNC   = os.O_SYNC
	O_TRUNC  = os.O_TRUNC
)

type FileMode = os.FileMode
type PathError = os.PathError

var (
	ErrNotExist = os.ErrNotExist
	ErrExist    = os.ErrExist
	ErrClosed   = os.ErrClosed
)

func writeAt(old []byte, off int, d []byte) []byte {
	for len(old) < off {
		old = append(old, 0)
	}
	if off+len(d) > len(old) {
		old = append(old[:off], d...)
		return old
	}
	copy(old[off:], d)
	return old
}

type fs struct {
	mu    sync.Mutex
	files map[string][]byte
	Log   []Op
}

var FS = &fs{files: map[string][]byte{}}

// Reset empties the file system and the log.
func Reset() {
	FS.mu.Lock()
	FS.files = map[string][]byte{}
	FS.Log = nil
	FS.mu.Unlock()
}

// Snapshot returns a copy of all files.
func Snapshot() map[string][]byte {
	FS.mu.Lock()
	defer FS.mu.Unlock()
	out := map[string][]byte{}
	for k, v := range FS.files {
		out[k] = append([]byte(nil), v...)
	}
	return out
}

// Restore replaces the file system content (log cleared).
func Restore(files map[string][]byte) {
	FS.mu.Lock()
	FS.files = map[string][]byte{}
	for k, v := range files {
		FS.files[k] = append([]byte(nil), v...)
	}
	FS.Log = nil
	FS.mu.Unlock()
}

// LogCopy returns the recorded operations.
func LogCopy() []Op {
	FS.mu.Lock()
	defer FS.mu.Unlock()
	return append([]Op(nil), FS.Log...)
}

// Replay materialises the image obtained by applying ops[:n] to base and then, if torn >= 0, the
// first `torn` bytes of the write ops[n] (which must be a write).
func Replay(base map[string][]byte, ops []Op, n int, torn int) map[string][]byte {
	files := map[string][]byte{}
	for k, v := range base {
		files[k] = append([]byte(nil), v...)
	}
	apply := func(o Op, limit int) {
		switch o.Kind {
		case "create":
			files[o.Name] = []byte{}
		case "touch":
			if _, ok := files[o.Name]; !ok {
				files[o.Name] = []byte{}
			}
		case "write":
			d := o.Data
			if limit >= 0 && limit < len(d) {
				d = d[:limit]
			}
			files[o.Name] = writeAt(append([]byte(nil), files[o.Name]...), o.Off, d)
		case "rename":
			if v, ok := files[o.Name]; ok {
				files[o.To] = v
				delete(files, o.Name)
			}
		case "remove":
			delete(files, o.Name)
		}
	}
	for i := 0; i < n && i < len(ops); i++ {
		apply(ops[i], -1)
	}
	if torn >= 0 && n < len(ops) && ops[n].Kind == "write" {
		apply(ops[n], torn)
	}
	return files
}

func Names(files map[string][]byte) []string {
	var out []string
	for k := range files {
		out = append(out, k)
	}
	sort.Strings(out)
	return out
}

type File struct {
	name   string
	closed bool
	pos    int
	app    bool // O_APPEND
	rdonly bool
}

func notExist(op, name string) error {
	return &os.PathError{Op: op, Path: name, Err: syscall.ENOENT}
}

func Create(name string) (*File, error) {
	FS.mu.Lock()
	defer FS.mu.Unlock()
	FS.files[name] = []byte{}
	FS.Log = append(FS.Log, Op{Kind: "create", Name: name})
	return &File{name: name}, nil
}

func (f *File) Name() string { return f.name }

func (f *File) Write(b []byte) (int, error) {
	FS.mu.Lock()
	defer FS.mu.Unlock()
	if f.closed {
		return 0, os.ErrClosed
	}
	if f.rdonly {
		return 0, &os.PathError{Op: "write", Path: f.name, Err: syscall.EBADF}
	}
	if f.app {
		f.pos = len(FS.files[f.name])
	}
	FS.files[f.name] = writeAt(FS.files[f.name], f.pos, b)
	FS.Log = append(FS.Log, Op{Kind: "write", Name: f.name, Off: f.pos, Data: append([]byte(nil), b...)})
	f.pos += len(b)
	return len(b), nil
}

func (f *File) WriteString(s string) (int, error) { return f.Write([]byte(s)) }

func (f *File) Read(b []byte) (int, error) {
	FS.mu.Lock()
	defer FS.mu.Unlock()
	if f.closed {
		return 0, os.ErrClosed
	}
	d := FS.files[f.name]
	if f.pos >= len(d) {
		return 0, io.EOF
	}
	n := copy(b, d[f.pos:])
	f.pos += n
	return n, nil
}

// Sync is recorded; the recording file system makes every write durable in order, so it changes no image.
func (f *File) Sync() error {
	FS.mu.Lock()
	defer FS.mu.Unlock()
	if f.closed {
		return os.ErrClosed
	}
	FS.Log = append(FS.Log, Op{Kind: "sync", Name: f.name})
	return nil
}

func (f *File) Chmod(os.FileMode) error { return nil }

// OpenFile honours O_CREATE, O_EXCL, O_TRUNC, O_APPEND and the access mode.
func OpenFile(name string, flag int, _ os.FileMode) (*File, error) {
	FS.mu.Lock()
	defer FS.mu.Unlock()
	_, exists := FS.files[name]
	switch {
	case !exists && flag&os.O_CREATE == 0:
		return nil, notExist("open", name)
	case exists && flag&os.O_CREATE != 0 && flag&os.O_EXCL != 0:
		return nil, &os.PathError{Op: "open", Path: name, Err: syscall.EEXIST}
	}
	if flag&os.O_TRUNC != 0 || !exists {
		if flag&os.O_TRUNC != 0 {
			FS.files[name] = []byte{}
			FS.Log = append(FS.Log, Op{Kind: "create", Name: name})
		} else {
			FS.files[name] = []byte{}
			FS.Log = append(FS.Log, Op{Kind: "touch", Name: name})
		}
	}
	return &File{name: name, app: flag&os.O_APPEND != 0, rdonly: flag&(os.O_WRONLY|os.O_RDWR) == 0}, nil
}

func Open(name string) (*File, error) { return OpenFile(name, os.O_RDONLY, 0) }

func MkdirAll(string, os.FileMode) error { return nil }
func Chmod(string, os.FileMode) error    { return nil }

type fileInfo struct {
	name string
	size int64
}

func (i fileInfo) Name() string       { return i.name }
func (i fileInfo) Size() int64        { return i.size }
func (i fileInfo) Mode() os.FileMode  { return 0o644 }
func (i fileInfo) ModTime() time.Time { return time.Time{} }
func (i fileInfo) IsDir() bool        { return false }
func (i fileInfo) Sys() any           { return nil }

func Stat(name string) (os.FileInfo, error) {
	FS.mu.Lock()
	defer FS.mu.Unlock()
	v, ok := FS.files[name]
	if !ok {
		return nil, notExist("stat", name)
	}
	return fileInfo{name, int64(len(v))}, nil
}

func IsExist(err error) bool { return os.IsExist(err) }

func (f *File) Close() error {
	FS.mu.Lock()
	defer FS.mu.Unlock()
	if f.closed {
		return os.ErrClosed
	}
	f.closed = true
	FS.Log = append(FS.Log, Op{Kind: "close", Name: f.name})
	return nil
}

func Rename(oldpath, newpath string) error {
	FS.mu.Lock()
	defer FS.mu.Unlock()
	v, ok := FS.files[oldpath]
	if !ok {
		return notExist("rename", oldpath)
	}
	FS.files[newpath] = v
	delete(FS.files, oldpath)
	FS.Log = append(FS.Log, Op{Kind: "rename", Name: oldpath, To: newpath})
	return nil
}

func Remove(name string) error {
	FS.mu.Lock()
	defer FS.mu.Unlock()
	if _, ok := FS.files[name]; !ok {
		return notExist("remove", name)
	}
	delete(FS.files, name)
	FS.Log = append(FS.Log, Op{Kind: "remove", Name: name})
	return nil
}

func ReadFile(name string) ([]byte, error) {
	FS.mu.Lock()
	defer FS.mu.Unlock()
	v, ok := FS.files[name]
	if !ok {
		return nil, notExist("open", name)
	}
	return append([]byte(nil), v...), nil
}

func WriteFile(name string, data []byte, _ os.FileMode) error {
	FS.mu.Lock()
	defer FS.mu.Unlock()
	FS.files[name] = append([]byte(nil), data...)
	FS.Log = append(FS.Log, Op{Kind: "create", Name: name}, Op{Kind: "write", Name: name, Off: 0, Data: append([]byte(nil), data...)}, Op{Kind: "close", Name: name})
	return nil
}

func IsNotExist(err error) bool { return os.IsNotExist(err) }
