// Package atomic mirrors the subset of go.uber.org/atomic used by dskit; every operation is a
// scheduling point of verif/sched (a no-op when the scheduler is disabled).
package atomic

import (
	"time"

	ua "go.uber.org/atomic"

	"verif/sched"
)

type Bool struct{ v ua.Bool }

func NewBool(b bool) *Bool         { x := &Bool{}; x.v.Store(b); return x }
func (b *Bool) Load() bool         { sched.Yield("atomic.Bool.Load"); return b.v.Load() }
func (b *Bool) Store(v bool)       { sched.Yield("atomic.Bool.Store"); b.v.Store(v) }
func (b *Bool) Swap(v bool) bool   { sched.Yield("atomic.Bool.Swap"); return b.v.Swap(v) }
func (b *Bool) CAS(o, n bool) bool { sched.Yield("atomic.Bool.CAS"); return b.v.CompareAndSwap(o, n) }
func (b *Bool) CompareAndSwap(o, n bool) bool {
	sched.Yield("atomic.Bool.CAS")
	return b.v.CompareAndSwap(o, n)
}
func (b *Bool) Toggle() bool   { sched.Yield("atomic.Bool.Toggle"); return b.v.Toggle() }
func (b *Bool) String() string { return b.v.String() }

type Int32 struct{ v ua.Int32 }

func NewInt32(i int32) *Int32       { x := &Int32{}; x.v.Store(i); return x }
func (i *Int32) Load() int32        { sched.Yield("atomic.Int32.Load"); return i.v.Load() }
func (i *Int32) Store(v int32)      { sched.Yield("atomic.Int32.Store"); i.v.Store(v) }
func (i *Int32) Add(d int32) int32  { sched.Yield("atomic.Int32.Add"); return i.v.Add(d) }
func (i *Int32) Sub(d int32) int32  { sched.Yield("atomic.Int32.Sub"); return i.v.Sub(d) }
func (i *Int32) Inc() int32         { sched.Yield("atomic.Int32.Inc"); return i.v.Inc() }
func (i *Int32) Dec() int32         { sched.Yield("atomic.Int32.Dec"); return i.v.Dec() }
func (i *Int32) Swap(v int32) int32 { sched.Yield("atomic.Int32.Swap"); return i.v.Swap(v) }
func (i *Int32) CAS(o, n int32) bool {
	sched.Yield("atomic.Int32.CAS")
	return i.v.CompareAndSwap(o, n)
}
func (i *Int32) CompareAndSwap(o, n int32) bool {
	sched.Yield("atomic.Int32.CAS")
	return i.v.CompareAndSwap(o, n)
}
func (i *Int32) String() string { return i.v.String() }

type Int64 struct{ v ua.Int64 }

func NewInt64(i int64) *Int64       { x := &Int64{}; x.v.Store(i); return x }
func (i *Int64) Load() int64        { sched.Yield("atomic.Int64.Load"); return i.v.Load() }
func (i *Int64) Store(v int64)      { sched.Yield("atomic.Int64.Store"); i.v.Store(v) }
func (i *Int64) Add(d int64) int64  { sched.Yield("atomic.Int64.Add"); return i.v.Add(d) }
func (i *Int64) Sub(d int64) int64  { sched.Yield("atomic.Int64.Sub"); return i.v.Sub(d) }
func (i *Int64) Inc() int64         { sched.Yield("atomic.Int64.Inc"); return i.v.Inc() }
func (i *Int64) Dec() int64         { sched.Yield("atomic.Int64.Dec"); return i.v.Dec() }
func (i *Int64) Swap(v int64) int64 { sched.Yield("atomic.Int64.Swap"); return i.v.Swap(v) }
func (i *Int64) CAS(o, n int64) bool {
	sched.Yield("atomic.Int64.CAS")
	return i.v.CompareAndSwap(o, n)
}
func (i *Int64) CompareAndSwap(o, n int64) bool {
	sched.Yield("atomic.Int64.CAS")
	return i.v.CompareAndSwap(o, n)
}

type Uint32 struct{ v ua.Uint32 }

func NewUint32(i uint32) *Uint32      { x := &Uint32{}; x.v.Store(i); return x }
func (i *Uint32) Load() uint32        { sched.Yield("atomic.Uint32.Load"); return i.v.Load() }
func (i *Uint32) Store(v uint32)      { sched.Yield("atomic.Uint32.Store"); i.v.Store(v) }
func (i *Uint32) Add(d uint32) uint32 { sched.Yield("atomic.Uint32.Add"); return i.v.Add(d) }
func (i *Uint32) Inc() uint32         { sched.Yield("atomic.Uint32.Inc"); return i.v.Inc() }
func (i *Uint32) CAS(o, n uint32) bool {
	sched.Yield("atomic.Uint32.CAS")
	return i.v.CompareAndSwap(o, n)
}

type Uint64 struct{ v ua.Uint64 }

func NewUint64(i uint64) *Uint64      { x := &Uint64{}; x.v.Store(i); return x }
func (i *Uint64) Load() uint64        { sched.Yield("atomic.Uint64.Load"); return i.v.Load() }
func (i *Uint64) Store(v uint64)      { sched.Yield("atomic.Uint64.Store"); i.v.Store(v) }
func (i *Uint64) Add(d uint64) uint64 { sched.Yield("atomic.Uint64.Add"); return i.v.Add(d) }
func (i *Uint64) Inc() uint64         { sched.Yield("atomic.Uint64.Inc"); return i.v.Inc() }
func (i *Uint64) CAS(o, n uint64) bool {
	sched.Yield("atomic.Uint64.CAS")
	return i.v.CompareAndSwap(o, n)
}

type Error struct{ v ua.Error }

func NewError(e error) *Error  { x := &Error{}; x.v.Store(e); return x }
func (e *Error) Load() error   { sched.Yield("atomic.Error.Load"); return e.v.Load() }
func (e *Error) Store(v error) { sched.Yield("atomic.Error.Store"); e.v.Store(v) }
func (e *Error) CompareAndSwap(o, n error) bool {
	sched.Yield("atomic.Error.CAS")
	return e.v.CompareAndSwap(o, n)
}
func (e *Error) Swap(v error) error { sched.Yield("atomic.Error.Swap"); return e.v.Swap(v) }

type String struct{ v ua.String }

func NewString(s string) *String { x := &String{}; x.v.Store(s); return x }
func (s *String) Load() string   { sched.Yield("atomic.String.Load"); return s.v.Load() }
func (s *String) Store(v string) { sched.Yield("atomic.String.Store"); s.v.Store(v) }

type Duration struct{ v ua.Duration }

func NewDuration(d time.Duration) *Duration { x := &Duration{}; x.v.Store(d); return x }
func (d *Duration) Load() time.Duration     { sched.Yield("atomic.Duration.Load"); return d.v.Load() }
func (d *Duration) Store(v time.Duration)   { sched.Yield("atomic.Duration.Store"); d.v.Store(v) }

type Float64 struct{ v ua.Float64 }

func NewFloat64(f float64) *Float64      { x := &Float64{}; x.v.Store(f); return x }
func (f *Float64) Load() float64         { sched.Yield("atomic.Float64.Load"); return f.v.Load() }
func (f *Float64) Store(v float64)       { sched.Yield("atomic.Float64.Store"); f.v.Store(v) }
func (f *Float64) Add(d float64) float64 { sched.Yield("atomic.Float64.Add"); return f.v.Add(d) }

type Time struct{ v ua.Time }

func NewTime(t time.Time) *Time   { x := &Time{}; x.v.Store(t); return x }
func (t *Time) Load() time.Time   { sched.Yield("atomic.Time.Load"); return t.v.Load() }
func (t *Time) Store(v time.Time) { sched.Yield("atomic.Time.Store"); t.v.Store(v) }

type Value = ua.Value
