package sched

import (
	"encoding/json"
	"fmt"
	"os"
	"strings"
	"time"

	"verif/ev"
)

// Chooser replays a prefix of choices and takes entry 0 (the default: keep running the current
// thread / the default environment answer) at every later point, recording the alternatives.
type Chooser struct {
	prefix  []int
	Choices []int
	Costs   [][]int // per point: cost of each entry
	desc    []string
	Diverge string
}

func NewChooser(prefix []int) *Chooser { return &Chooser{prefix: prefix} }

func (c *Chooser) choose(costs []int, describe func() string) int {
	i := len(c.Choices)
	k := 0
	if i < len(c.prefix) {
		k = c.prefix[i]
		if k >= len(costs) {
			// replaying a recorded prefix must find the same alternatives: hard harness error
			c.Diverge = fmt.Sprintf("replay divergence at point %d: choice %d of %d entries (%s)", i, k, len(costs), describe())
			k = 0
		}
	}
	c.Choices = append(c.Choices, k)
	c.Costs = append(c.Costs, costs)
	return k
}

// Result of one execution as seen by the explorer.
type Result struct {
	Violation string   // "" = property held on this execution
	Key       string   // canonical identity of the violation
	Outcome   string   // canonical observable outcome (for distinct-outcome counting)
	Trace     []string // canonical trace (schedule + observations) for the determinism audit
}

// Explorer is the deviation-bounded stateless DFS.
type Explorer struct {
	Bound    int
	Run      func(c *Chooser) Result
	Report   *ev.Report
	Deadline time.Time
	Scenario string
	AuditN   int  // replay every AuditN-th execution (0 = 500)
	NoShard  bool // the caller distributes whole scenarios over the shards: explore the full tree here

	Execs    int64
	outcomes map[string]struct{}
	stopped  bool
}

type item struct {
	prefix []int
	cost   int
}

var giveUp func(key, what string, ch *Chooser, trace []string)

// GiveUp is called inside an execution's bubble when the execution can be neither finished nor torn down: a
// goroutine of the code under test is blocked for ever on a native channel operation although everything it
// could wait for has happened (all calls returned, its context cancelled). The bubble would end in the runtime's
// "blocked goroutines remain" panic and the worker would die without a verdict. The harness states the violated
// clause; it is recorded with its schedule, the report is written and the worker ends here (the rest of this
// shard stays unexplored: exhaustive=false). Replaying the recorded schedule reaches the same point again.
func GiveUp(key, what string, ch *Chooser, trace []string) {
	if giveUp == nil {
		panic("HARNESS: GiveUp outside an exploration: " + what)
	}
	giveUp(key, what, ch, trace)
}

func (x *Explorer) armGiveUp() {
	giveUp = func(key, what string, ch *Chooser, trace []string) {
		x.Report.Eval(1)
		x.Report.Trace(1)
		x.Report.Violate(x.Scenario+"|"+key, fmt.Sprintf("scenario %s: %s\n  schedule: %s", x.Scenario, what, strings.Join(trace, " ; ")),
			map[string]any{"scenario": x.Scenario, "choices": ch.Choices})
		x.Report.NotExhaustive("an execution of " + x.Scenario + " left a goroutine of the code under test blocked for ever; the worker ended after reporting it")
		if err := x.Report.Write(); err != nil {
			panic("HARNESS: " + err.Error())
		}
		fmt.Printf("GIVE-UP scenario=%s: %s\n", x.Scenario, what)
		os.Exit(0)
	}
}

// Explore runs the DFS for this worker's shard. Returns false if stopped early (deadline / violation cap).
func (x *Explorer) Explore() bool {
	if x.AuditN == 0 {
		x.AuditN = 500
	}
	if x.outcomes == nil {
		x.outcomes = map[string]struct{}{}
	}
	si, sn := ev.Shard()
	if x.NoShard {
		si, sn = 0, 1
	}
	stack := []item{{nil, 0}}
	level1 := 0
	x.armGiveUp()
	for len(stack) > 0 {
		if ev.WallNow().After(x.Deadline) || x.Report.NumViolations() >= 10 {
			x.stopped = true
			return false
		}
		it := stack[len(stack)-1]
		stack = stack[:len(stack)-1]
		root := len(it.prefix) == 0
		c := NewChooser(it.prefix)
		res := x.Run(c)
		if c.Diverge != "" {
			panic(fmt.Sprintf("HARNESS: %s scenario=%s prefix=%v", c.Diverge, x.Scenario, it.prefix))
		}
		countIt := !root || si == 0
		if countIt {
			x.Execs++
			x.Report.Eval(1)
			x.Report.Trace(1)
			x.Report.Trans(int64(len(c.Choices)))
			if _, ok := x.outcomes[res.Outcome]; !ok {
				x.outcomes[res.Outcome] = struct{}{}
				x.Report.Distinct(x.Scenario + "|" + res.Outcome)
				x.Report.State(1)
			}
			if x.Execs%int64(x.AuditN) == 1 {
				x.audit(c.Choices, res, 1)
			}
			if res.Violation != "" {
				x.audit(c.Choices, res, 5) // a violation is only believed after 5 identical replays
				x.Report.Violate(x.Scenario+"|"+res.Key, fmt.Sprintf("scenario %s: %s\n  schedule: %s", x.Scenario, res.Violation, strings.Join(res.Trace, " ; ")),
					map[string]any{"scenario": x.Scenario, "choices": c.Choices})
			}
		}
		// children: deviate at every point after the prefix
		cost := it.cost
		var kids []item
		for i := len(it.prefix); i < len(c.Choices); i++ {
			for alt := 1; alt < len(c.Costs[i]); alt++ {
				cc := cost + c.Costs[i][alt]
				if cc > x.Bound {
					continue
				}
				if root {
					level1++
					if (level1-1)%sn != si {
						continue
					}
				}
				p := make([]int, i+1)
				copy(p, c.Choices[:i])
				p[i] = alt
				kids = append(kids, item{p, cc})
			}
			cost += c.Costs[i][c.Choices[i]]
		}
		// push in reverse so that the earliest deviation is explored first
		for i := len(kids) - 1; i >= 0; i-- {
			stack = append(stack, kids[i])
		}
	}
	return true
}

func (x *Explorer) audit(choices []int, want Result, times int) {
	for i := 0; i < times; i++ {
		c := NewChooser(choices)
		got := x.Run(c)
		if c.Diverge != "" || strings.Join(got.Trace, "\n") != strings.Join(want.Trace, "\n") || got.Violation != want.Violation {
			panic(fmt.Sprintf("HARNESS: nondeterministic replay in scenario %s (choices %v)\n--- first:\n%s\n%s\n--- replay:\n%s\n%s\n%s", x.Scenario, choices, strings.Join(want.Trace, "\n"), want.Violation, strings.Join(got.Trace, "\n"), got.Violation, c.Diverge))
		}
	}
	x.Report.Add("replay_audits", int64(times))
}

// Outcomes returns the number of distinct observable outcomes seen.
func (x *Explorer) Outcomes() int { return len(x.outcomes) }

// ReplaySpec is what a replay file of an E2 check carries.
type ReplaySpec struct {
	Scenario string `json:"scenario"`
	Choices  []int  `json:"choices"`
}

// LoadReplay reads $VERIF_REPLAY (written by ./check for a violation). nil if not in replay mode.
func LoadReplay() *ReplaySpec {
	p := os.Getenv("VERIF_REPLAY")
	if p == "" {
		return nil
	}
	b, err := os.ReadFile(p)
	if err != nil {
		panic("HARNESS: cannot read replay file: " + err.Error())
	}
	var f struct {
		Replay ReplaySpec `json:"replay"`
	}
	if err := json.Unmarshal(b, &f); err != nil {
		panic("HARNESS: bad replay file: " + err.Error())
	}
	return &f.Replay
}

// ReplayOne re-executes exactly the recorded execution (no exploration) and records its verdict.
func (x *Explorer) ReplayOne(r *ReplaySpec) {
	x.armGiveUp()
	c := NewChooser(r.Choices)
	res := x.Run(c)
	if c.Diverge != "" {
		panic("HARNESS: " + c.Diverge)
	}
	x.Report.Eval(1)
	x.Report.Trace(1)
	x.Report.State(1)
	x.Report.Trans(int64(len(c.Choices)))
	x.Report.Distinct(res.Outcome)
	x.Report.Sample(map[string]any{"scenario": x.Scenario, "choices": r.Choices, "trace": res.Trace})
	fmt.Printf("REPLAY scenario=%s\n  %s\n", x.Scenario, strings.Join(res.Trace, "\n  "))
	if res.Violation != "" {
		x.Report.Violate(x.Scenario+"|"+res.Key, fmt.Sprintf("scenario %s: %s\n  schedule: %s", x.Scenario, res.Violation, strings.Join(res.Trace, " ; ")),
			map[string]any{"scenario": x.Scenario, "choices": c.Choices})
	} else {
		fmt.Println("REPLAY: the property holds on this execution")
	}
}

// ExploreOrReplay runs the DFS, or, in replay mode, only the recorded execution of the matching scenario.
func (x *Explorer) ExploreOrReplay() bool {
	if r := LoadReplay(); r != nil {
		if r.Scenario == x.Scenario {
			x.ReplayOne(r)
		}
		return true
	}
	return x.Explore()
}
