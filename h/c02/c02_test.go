// C02 — every successful quorum write shares a replica with every successful quorum read.
// Engine E1: all rings of a small universe (zones up to renaming, every health-class vector),
// every start position, RF, zone-awareness; for each, ALL minimal acknowledging subsets of the
// real Get(key, Write) × ALL minimal answering subsets of the real GetReplicationSetForOperation(Read).
package c02

import (
	"fmt"
	"math/bits"
	"sort"
	"strings"
	"sync"
	"testing"
	"time"

	"github.com/go-kit/log"
	"github.com/grafana/dskit/ring"

	"verif/enum"
	"verif/ev"
	"verif/pre"
)

const hbTimeout = 60 * time.Second

const (
	clsActive = iota
	clsStale
	clsLeaving
	clsPending
	clsJoining
	numCls
)

var clsName = []string{"A", "As", "L", "P", "J"}

func clsState(c int) ring.InstanceState {
	switch c {
	case clsActive, clsStale:
		return ring.ACTIVE
	case clsLeaving:
		return ring.LEAVING
	case clsPending:
		return ring.PENDING
	}
	return ring.JOINING
}

// restricted growth strings of length n with at most maxBlocks blocks = zone assignments up to renaming
func rgs(n, maxBlocks int) [][]int {
	var out [][]int
	cur := make([]int, n)
	var rec func(i, used int)
	rec = func(i, used int) {
		if i == n {
			out = append(out, append([]int(nil), cur...))
			return
		}
		for z := 0; z <= used && z < maxBlocks; z++ {
			cur[i] = z
			nu := used
			if z == used {
				nu++
			}
			rec(i+1, nu)
		}
	}
	rec(0, 0)
	return out
}

type rcase struct {
	zones   []int // -1 = no zone
	cls     []int
	noToken uint // bit i: instance i is registered without tokens
}

func (c rcase) String() string {
	var sb strings.Builder
	for i := range c.cls {
		z := ""
		if c.zones[i] >= 0 {
			z = string(rune('a' + c.zones[i]))
		}
		if c.noToken&(1<<i) != 0 {
			fmt.Fprintf(&sb, "i%d[z=%q %s no tokens] ", i, z, clsName[c.cls[i]])
			continue
		}
		fmt.Fprintf(&sb, "i%d[z=%q %s tok=%d] ", i, z, clsName[c.cls[i]], (i+1)*1000)
	}
	return sb.String()
}

func (c rcase) desc(now time.Time) *ring.Desc {
	d := ring.NewDesc()
	for i := range c.cls {
		id := fmt.Sprintf("i%d", i)
		ts := now.Add(-hbTimeout).Unix()
		if c.cls[i] == clsStale {
			ts = now.Add(-hbTimeout - time.Second).Unix()
		}
		z := ""
		if c.zones[i] >= 0 {
			z = string(rune('a' + c.zones[i]))
		}
		toks := []uint32{uint32(i+1) * 1000}
		if c.noToken&(1<<i) != 0 {
			toks = nil
		}
		d.Ingesters[id] = ring.InstanceDesc{Id: id, Addr: id, Zone: z, State: clsState(c.cls[i]), Timestamp: ts, Tokens: toks, RegisteredTimestamp: now.Unix()}
	}
	return d
}

type ringSet struct{ rings map[[2]int]*ring.Ring }

var ringPool = sync.Pool{New: func() any { return &ringSet{rings: map[[2]int]*ring.Ring{}} }}

func (rs *ringSet) get(rf int, za bool) *ring.Ring {
	k := [2]int{rf, 0}
	if za {
		k[1] = 1
	}
	r := rs.rings[k]
	if r == nil {
		cfg := ring.Config{HeartbeatTimeout: hbTimeout, ReplicationFactor: rf, ZoneAwarenessEnabled: za, SubringCacheDisabled: true}
		var err error
		r, err = ring.NewWithStoreClientAndStrategy(cfg, "c02", "ring", nil, ring.NewDefaultReplicationStrategy(), nil, log.NewNopLogger())
		if err != nil {
			panic(err)
		}
		rs.rings[k] = r
	}
	r.VerifUpdateRingState(ring.NewDesc())
	return r
}

func idx(id string) int {
	var n int
	fmt.Sscanf(id, "i%d", &n)
	return n
}

// subsets of the set bits of mask having exactly k bits
func subsetsOfSize(mask uint, k int) []uint {
	var out []uint
	for s := mask; ; s = (s - 1) & mask {
		if bits.OnesCount(s) == k {
			out = append(out, s)
		}
		if s == 0 {
			break
		}
	}
	return out
}

func maskStr(m uint) string {
	var ids []string
	for i := 0; i < 16; i++ {
		if m&(1<<i) != 0 {
			ids = append(ids, fmt.Sprintf("i%d", i))
		}
	}
	return "[" + strings.Join(ids, " ") + "]"
}

func TestC02(t *testing.T) {
	rep := ev.NewReport("C02", "quorum-intersection")
	maxN, maxRF := 5, 4
	tokenlessMaxN := 4
	if ev.Thorough() {
		maxN, maxRF = 6, 5
		tokenlessMaxN = 5
	}
	rep.Bound = fmt.Sprintf("rings of 1..%d instances (one token each at i*1000; for rings of up to %d instances also every proper subset of them registered WITHOUT tokens), every health-class vector over {ACTIVE at the timeout boundary, ACTIVE stale, LEAVING, PENDING, JOINING}, zone-aware: every zone assignment up to renaming with <=5 zones (every instance zoned), non-zone-aware: no zones; RF 1..%d; every start position (key just before each token); zone-aware rings are installed on top of a zone-relabelled version of themselves (same tokens)", maxN, tokenlessMaxN, maxRF)
	rep.Rule = "for each (ring, key, RF, zone-awareness) where real Get(key,Write) and real GetReplicationSetForOperation(Read) both succeed: every subset of the write set of size len-MaxErrors × every minimal answering read set (size len-MaxErrors, or all instances of #zones-MaxUnavailableZones zones) must intersect; distinct_nontrivial = distinct (write set, write MaxErrors, read set, read tolerance) combinations with tolerance > 0 on at least one side"
	rep.Assumptions = []string{"success criteria of the executors (DoBatch: len-MaxErrors acks per key; DoUntilQuorum: len-MaxErrors results or all instances of zones-MaxUnavailableZones zones) are those checked against the real executors by C10 and C11"}
	deadline := ev.Deadline(10 * time.Minute)
	enum.Frozen(t, func() {
		now := time.Now()
		for n := 1; n <= maxN; n++ {
			zoneAssign := rgs(n, 5)
			nCls := 1
			for i := 0; i < n; i++ {
				nCls *= numCls
			}
			// index space: [0, nCls) non-zone-aware ; then zone assignments × nCls ; all that × the set of instances
			// registered without tokens (every proper subset, for rings of up to tokenlessMaxN instances)
			per := nCls * (1 + len(zoneAssign))
			nMasks := 1
			if n <= tokenlessMaxN {
				nMasks = 1<<n - 1 // at least one instance keeps its token
			}
			total := per * nMasks
			ok := enum.Par(total, deadline, func() bool { return rep.NumViolations() >= 20 }, func(ix int) {
				c := rcase{zones: make([]int, n), cls: make([]int, n), noToken: uint(ix / per)}
				ix %= per
				ci := ix % nCls
				zi := ix / nCls
				for i := 0; i < n; i++ {
					c.cls[i] = ci % numCls
					ci /= numCls
				}
				za := zi > 0
				if za {
					copy(c.zones, zoneAssign[zi-1])
				} else {
					for i := range c.zones {
						c.zones[i] = -1
					}
				}
				rs := ringPool.Get().(*ringSet)
				defer ringPool.Put(rs)
				rep.State(1)
				for rf := 1; rf <= maxRF; rf++ {
					r := rs.get(rf, za)
					// installed on top of earlier versions of itself: all-ACTIVE, zone-relabelled, token-shifted (see package pre)
					pre.Install(r, c.desc(now), now)
					read, rerr := r.GetReplicationSetForOperation(ring.Read)
					rep.Eval(1)
					if rerr != nil {
						rep.Add("read_lookup_failed", 1)
						continue
					}
					if read.MaxErrors < 0 || read.MaxUnavailableZones < 0 || (read.MaxErrors > 0 && read.MaxUnavailableZones > 0) {
						rep.Violate(fmt.Sprintf("tol:%s|rf=%d|za=%v", c.String(), rf, za), fmt.Sprintf("ring %s rf=%d za=%v: read set tolerances MaxErrors=%d MaxUnavailableZones=%d", c.String(), rf, za, read.MaxErrors, read.MaxUnavailableZones), nil)
					}
					// minimal answering sets of the read
					var readSets []uint
					var rmask uint
					for _, in := range read.Instances {
						rmask |= 1 << idx(in.Id)
					}
					if read.ZoneAwarenessEnabled {
						zoneMask := map[string]uint{}
						for _, in := range read.Instances {
							zoneMask[in.Zone] |= 1 << idx(in.Id)
						}
						var zs []string
						for z := range zoneMask {
							zs = append(zs, z)
						}
						sort.Strings(zs)
						need := len(zs) - read.MaxUnavailableZones
						for _, pick := range subsetsOfSize((1<<len(zs))-1, need) {
							var m uint
							for zi, z := range zs {
								if pick&(1<<zi) != 0 {
									m |= zoneMask[z]
								}
							}
							readSets = append(readSets, m)
						}
					} else {
						readSets = subsetsOfSize(rmask, len(read.Instances)-read.MaxErrors)
					}
					for k := 0; k < n; k++ {
						key := uint32(k+1)*1000 - 1
						w, werr := r.Get(key, ring.Write, nil, nil, nil)
						rep.Eval(1)
						if werr != nil {
							rep.Add("write_lookup_failed", 1)
							continue
						}
						if w.MaxErrors < 0 {
							rep.Violate(fmt.Sprintf("wtol:%s|rf=%d|za=%v|key=%d", c.String(), rf, za, key), "negative MaxErrors on write set", nil)
						}
						var wmask uint
						for _, in := range w.Instances {
							wmask |= 1 << idx(in.Id)
						}
						wsets := subsetsOfSize(wmask, len(w.Instances)-w.MaxErrors)
						if w.MaxErrors > 0 || read.MaxErrors > 0 || read.MaxUnavailableZones > 0 {
							rep.Distinct(fmt.Sprintf("%x/%d/%x/%d/%d/%v", wmask, w.MaxErrors, rmask, read.MaxErrors, read.MaxUnavailableZones, c.zones))
						}
						for _, ws := range wsets {
							for _, rsn := range readSets {
								rep.Trans(1)
								if ws&rsn == 0 {
									rep.Violate(fmt.Sprintf("disjoint:%s|rf=%d|za=%v|key=%d", c.String(), rf, za, key),
										fmt.Sprintf("ring %s rf=%d zoneAware=%v key=%d: write acknowledged by %s (write set %s MaxErrors=%d) and read answered by %s (read set %s MaxErrors=%d MaxUnavailableZones=%d) share no instance",
											c.String(), rf, za, key, maskStr(ws), maskStr(wmask), w.MaxErrors, maskStr(rsn), maskStr(rmask), read.MaxErrors, read.MaxUnavailableZones),
										map[string]any{"n": n, "ix": ix, "rf": rf, "key": key})
								}
							}
						}
					}
				}
				if ix%(total/2+1) == 1 {
					rep.Sample(c.String())
				}
			})
			if !ok {
				rep.NotExhaustive(fmt.Sprintf("stopped at n=%d (deadline or violation cap)", n))
				break
			}
		}
	})
	rep.Trace(rep.Transitions)
	if err := rep.Write(); err != nil {
		t.Fatal(err)
	}
}
