package c11

import (
	"context"
	"errors"
	"fmt"
	"sort"
	"strings"
	"sync"
	"testing"
	"testing/synctest"
	"time"

	"github.com/grafana/dskit/ring"

	"verif/ev"
	"verif/sched"
)

// TestC11Legacy — the legacy executor ReplicationSet.Do (delayed extra requests, no clean-up callback).
// Every outcome vector × completion order × (for the delayed variant) timing of the delay × caller
// cancellation is enumerated. It has no locks: the choice points are the calls themselves (each parks on
// entry and is given its outcome by the explorer) and the virtual clock.
//
// Oracle (the clauses of C11 that this executor has an observable for): results come only from calls that
// succeeded, and success is reported only once the criterion holds (all but MaxErrors instances, or every
// instance of all but MaxUnavailableZones zones, whose results are all included); an error only once the
// tolerated failures are exceeded (one of the errors returned) or the caller's context ended; every
// instance is called at most once; a held-back extra request starts only after the delay or after a failure;
// the call always returns. This executor returns every success it has received so far, also from a zone that
// is not complete — it has no clean-up callback to hand those to; the "from which alone the results are
// taken" wording is checked on the DoUntilQuorum family (TestC11 / TestC11Multi).

type lscenario struct {
	name       string
	zones      []string
	maxErrors  int
	maxUnavail int
	delay      time.Duration
	cancel     bool
}

func (s lscenario) String() string {
	return fmt.Sprintf("%s[zones=%q maxErr=%d maxUnavailZones=%d delay=%v cancel=%v]", s.name, s.zones, s.maxErrors, s.maxUnavail, s.delay, s.cancel)
}

var errLegacy = errors.New("replica failed")

func runLegacy(t *testing.T, sc lscenario, ch *sched.Chooser) (res sched.Result) {
	synctest.Test(t, func(t *testing.T) {
		e := sched.NewExec(ch)
		e.MaxSteps = 3000
		e.Quantum = time.Second
		ctx, cancel := context.WithCancel(context.Background())
		defer cancel()
		set := ring.ReplicationSet{MaxErrors: sc.maxErrors, MaxUnavailableZones: sc.maxUnavail}
		zoneOf := map[string]string{}
		for i, z := range sc.zones {
			id := fmt.Sprintf("i%d", i)
			set.Instances = append(set.Instances, ring.InstanceDesc{Id: id, Addr: id, Zone: z})
			zoneOf[id] = z
		}
		n := len(sc.zones)
		started, returned, cancelled := false, false, false
		ticks := 0
		var got []interface{}
		var gotErr error
		calls := map[string]int{}
		errOf := map[string]error{}
		earlyEntry := map[string]bool{}
		errsAnswered := 0
		var hmu sync.Mutex
		f := func(fctx context.Context, in *ring.InstanceDesc) (interface{}, error) {
			sched.SetName("f:" + in.Id)
			// the calls are spawned together and run natively up to their first park: the entry bookkeeping is the
			// only harness state touched before it, under a real mutex
			hmu.Lock()
			calls[in.Id]++
			entryTick := ticks // the call has started now; it parks until the explorer lets it answer
			if entryTick == 0 && errsAnswered == 0 {
				earlyEntry[in.Id] = true // started before the delay had passed and before any failure
			}
			hmu.Unlock()
			o := sched.Choose("outcome", 2, false)
			sched.Obs(fmt.Sprintf("f-start %s tick=%d", in.Id, entryTick))
			if o == 0 {
				sched.Obs("f-end " + in.Id + " ok")
				return in.Id, nil
			}
			err := fmt.Errorf("%w: %s", errLegacy, in.Id)
			errOf[in.Id] = err
			errsAnswered++
			sched.Obs("f-end " + in.Id + " err")
			return nil, err
		}
		if sc.delay > 0 {
			e.ClockOn = func() bool { return started && !returned && ticks < 2 }
			e.OnClock = func() { ticks++ }
		}
		e.Enable()
		callerGone := false
		e.Go("caller", func() {
			defer func() { callerGone = true }()
			started = true
			sched.Obs("call")
			got, gotErr = set.Do(ctx, sc.delay, f)
			returned = true
			sched.Yield("returned")
			sched.Obs("return")
		})
		if sc.cancel {
			e.Go("x-cancel", func() {
				// only while the caller sits in its select with nothing pending (a select never sees two ready cases)
				sched.YieldUntil("cancel-window", func() bool { return started && !returned })
				cancelled = true
				sched.Obs("cancel")
				cancel()
			})
		}
		status := e.Run()
		trace := append([]string{}, e.Trace...)
		canon := e.CanonLog()
		evs := e.Events()
		cancel()
		leaked := sched.ShimLeaks(e.Teardown())
		synctest.Wait()
		if !callerGone {
			// Do is blocked on a channel of its own although its context is cancelled and nothing else can happen
			// (every goroutine of the bubble is durably blocked): "returns an error once ... the caller's context ends"
			sched.GiveUp("hang-native", fmt.Sprintf("ReplicationSet.Do never returned, not even after its context was cancelled: status=%s log=%v", status, canon), ch, append(trace, canon...))
		}
		var viol, key string
		fail := func(k, f string, a ...any) {
			if viol == "" {
				viol, key = fmt.Sprintf(f, a...), k
			}
		}
		stepOf := func(text string) int {
			for _, x := range evs {
				if x.Text == text {
					return x.Step
				}
			}
			return -1
		}
		if !returned {
			fail("hang", "ReplicationSet.Do did not return: status=%s blocked=%v log=%v", status, leaked, canon)
		}
		retStep := stepOf("return")
		var okBefore, errBefore []string
		firstErrStep := -1
		for _, x := range evs {
			if !strings.HasPrefix(x.Text, "f-end ") {
				continue
			}
			p := strings.Fields(x.Text)
			if p[2] == "err" && (firstErrStep < 0 || x.Step < firstErrStep) {
				firstErrStep = x.Step
			}
			if retStep >= 0 && x.Step > retStep {
				continue
			}
			if p[2] == "ok" {
				okBefore = append(okBefore, p[1])
			} else {
				errBefore = append(errBefore, p[1])
			}
		}
		sort.Strings(okBefore)
		sort.Strings(errBefore)
		for id, k := range calls {
			if k > 1 {
				fail("called-twice", "instance %s was called %d times", id, k)
			}
		}
		zones := map[string][]string{}
		for id, z := range zoneOf {
			zones[z] = append(zones[z], id)
		}
		in := func(l []string, x string) bool {
			for _, y := range l {
				if y == x {
					return true
				}
			}
			return false
		}
		if returned && viol == "" {
			var ids []string
			for _, r := range got {
				id, ok := r.(string)
				if !ok {
					fail("phantom-result", "returned %#v, which is the result of no call", r)
					continue
				}
				ids = append(ids, id)
			}
			sort.Strings(ids)
			switch {
			case gotErr == nil:
				for _, id := range ids {
					if !in(okBefore, id) {
						fail("phantom-result", "returned a result of %s, which had not succeeded (successes so far %v)", id, okBefore)
					}
				}
				for i := 1; i < len(ids); i++ {
					if ids[i] == ids[i-1] {
						fail("duplicate-result", "returned the result of %s twice: %v", ids[i], ids)
					}
				}
				if sc.maxUnavail > 0 {
					complete := 0
					for _, members := range zones {
						all := true
						for _, id := range members {
							if !in(ids, id) {
								all = false
							}
						}
						if all {
							complete++
						}
					}
					if complete < len(zones)-sc.maxUnavail {
						fail("early-success", "success reported with results %v: only %d of %d zones are completely answered (tolerated unavailable zones %d)", ids, complete, len(zones), sc.maxUnavail)
					}
				} else if len(ids) < n-sc.maxErrors {
					fail("early-success", "success reported with %d results %v of %d instances (tolerated errors %d)", len(ids), ids, n, sc.maxErrors)
				}
			case errors.Is(gotErr, context.Canceled):
				if !cancelled {
					fail("phantom-cancel", "returned %v but the caller's context was never cancelled", gotErr)
				}
			default:
				if !errors.Is(gotErr, errLegacy) {
					fail("foreign-error", "returned error %v which no call produced", gotErr)
				}
				match := false
				for _, id := range errBefore {
					if gotErr == errOf[id] {
						match = true
					}
				}
				if !match {
					fail("foreign-error", "returned error %v, the failed calls so far are %v", gotErr, errBefore)
				}
				if sc.maxUnavail > 0 {
					bad := map[string]bool{}
					for _, id := range errBefore {
						bad[zoneOf[id]] = true
					}
					if len(bad) <= sc.maxUnavail {
						fail("early-failure", "error reported although only %d zone(s) failed (tolerated %d): failures %v", len(bad), sc.maxUnavail, errBefore)
					}
				} else if len(errBefore) <= sc.maxErrors {
					fail("early-failure", "error reported after %d failure(s) %v (tolerated %d)", len(errBefore), errBefore, sc.maxErrors)
				}
			}
			// held-back extra requests (non-zone-aware, delay > 0): the last MaxErrors instances
			if sc.delay > 0 && sc.maxUnavail == 0 {
				for i := n - sc.maxErrors; i < n; i++ {
					id := fmt.Sprintf("i%d", i)
					if earlyEntry[id] {
						fail("extra-too-early", "the held-back request to %s started before the delay had passed and before any failure", id)
					}
				}
			}
		}
		if len(leaked) > 0 {
			fail("leak", "goroutines of the code under test are still blocked for ever after everything was cancelled: %v", leaked)
		}
		var oc []string
		for _, x := range evs {
			if strings.HasPrefix(x.Text, "f-end ") {
				oc = append(oc, strings.TrimPrefix(x.Text, "f-end "))
			}
		}
		sort.Strings(oc)
		res = sched.Result{Violation: viol, Key: key, Outcome: fmt.Sprintf("ret=%d err=%v|%v", len(got), gotErr != nil, oc), Trace: append(trace, canon...)}
	})
	return
}

func lscenarios() []lscenario {
	var out []lscenario
	plain := func(n int) []string { return make([]string, n) }
	for _, c := range [][2]int{{1, 0}, {2, 0}, {2, 1}, {3, 0}, {3, 1}, {3, 2}, {4, 1}, {4, 2}} {
		out = append(out, lscenario{name: "plain", zones: plain(c[0]), maxErrors: c[1]})
	}
	out = append(out,
		lscenario{name: "zones", zones: []string{"a", "b", "c"}, maxUnavail: 1},
		lscenario{name: "zones", zones: []string{"a", "a", "b", "b"}, maxUnavail: 1},
		lscenario{name: "zones", zones: []string{"a", "a", "b", "c"}, maxUnavail: 1},
		lscenario{name: "zones", zones: []string{"a", "b", "c", "d"}, maxUnavail: 2},
		lscenario{name: "zones", zones: []string{"a", "a", "b", "b", "c"}, maxUnavail: 1},
		lscenario{name: "delayed", zones: plain(2), maxErrors: 1, delay: time.Second},
		lscenario{name: "delayed", zones: plain(3), maxErrors: 1, delay: time.Second},
		lscenario{name: "delayed", zones: plain(4), maxErrors: 1, delay: time.Second},
		lscenario{name: "cancel", zones: plain(2), maxErrors: 1, cancel: true},
		lscenario{name: "cancel", zones: plain(3), maxErrors: 1, cancel: true},
		lscenario{name: "cancel-zones", zones: []string{"a", "b", "c"}, maxUnavail: 1, cancel: true},
		lscenario{name: "cancel-delayed", zones: plain(3), maxErrors: 1, delay: time.Second, cancel: true},
	)
	if ev.Thorough() {
		out = append(out,
			lscenario{name: "plain", zones: plain(5), maxErrors: 2},
			lscenario{name: "zones", zones: []string{"a", "a", "b", "b", "c", "c"}, maxUnavail: 1},
			lscenario{name: "delayed", zones: plain(5), maxErrors: 1, delay: time.Second},
		)
	}
	return out
}

func TestC11Legacy(t *testing.T) {
	rep := ev.NewReport("C11", "legacy-do")
	scs := lscenarios()
	var names []string
	for _, s := range scs {
		names = append(names, s.String())
	}
	rep.Bound = fmt.Sprintf("%d scenarios of ReplicationSet.Do: 1..4 (thorough 5..6) instances, tolerated errors 0..2, 3..5 instances in 2..4 zones with 1..2 tolerated unavailable zones, delayed extra request (one held-back instance, delay 1 s under a virtual clock), caller cancellation; every assignment of success/failure to the calls × every completion order × every timing of the delay and of the cancellation (no deviation bound: the search is complete): %v", len(scs), names)
	rep.Rule = "stateless DFS on the real ReplicationSet.Do (calls park on entry and get their outcome from the explorer); oracle: results only from succeeded calls, success only with the criterion met by the returned results, error only beyond the tolerance and equal to an error a call returned, cancellation error only after cancellation, each instance called at most once, the held-back request only after the delay or a failure, always returns; distinct_nontrivial = distinct (scenario, return kind, outcome vector)"
	deadline := ev.Deadline(8 * time.Minute)
	si, sn := ev.Shard()
	for i, sc := range scs {
		if i%sn != si {
			continue
		}
		x := &sched.Explorer{Bound: 1 << 20, Report: rep, Deadline: deadline, Scenario: sc.String(), NoShard: true,
			Run: func(c *sched.Chooser) sched.Result { return runLegacy(t, sc, c) }}
		if !x.ExploreOrReplay() {
			rep.NotExhaustive("deadline or violation cap in scenario " + sc.String())
			break
		}
		rep.Sample(fmt.Sprintf("%s: %d executions, %d distinct outcomes", sc.String(), x.Execs, x.Outcomes()))
	}
	if err := rep.Write(); err != nil {
		t.Fatal(err)
	}
}
