// C13 — a ring client's answers depend only on the latest ring content, not on history.
// Engine E1 (differential BFS): every sequence of <=3 (4) descriptor updates / clock advances is
// pushed through the KV watch callback of a long-lived real ring client with caches enabled;
// after EVERY step a large query vector (which also fills the caches) is compared with a client
// freshly built from the latest descriptor with caches disabled. Same scheme for the partition
// ring watcher and its shard caches.
package c13

import (
	"context"
	"fmt"
	"runtime"
	"sort"
	"strings"
	"sync"
	"testing"
	"testing/synctest"
	"time"

	"github.com/go-kit/log"

	"github.com/grafana/dskit/kv"
	"github.com/grafana/dskit/ring"
	"github.com/grafana/dskit/services"

	"verif/ev"
)

const M = ^uint32(0)

// ---- mock kv client: the harness is the store ----

type mockKV struct {
	mu    sync.Mutex
	value interface{}
	watch func(interface{}) bool
	ready chan struct{}
}

func newMockKV(v interface{}) *mockKV { return &mockKV{value: v, ready: make(chan struct{})} }

func (m *mockKV) List(context.Context, string) ([]string, error)   { return nil, nil }
func (m *mockKV) Get(context.Context, string) (interface{}, error) { return m.value, nil }
func (m *mockKV) Delete(context.Context, string) error             { return nil }
func (m *mockKV) CAS(context.Context, string, func(interface{}) (interface{}, bool, error)) error {
	return nil
}
func (m *mockKV) WatchKey(ctx context.Context, _ string, f func(interface{}) bool) {
	m.mu.Lock()
	m.watch = f
	m.mu.Unlock()
	close(m.ready)
	<-ctx.Done()
}
func (m *mockKV) WatchPrefix(ctx context.Context, _ string, _ func(string, interface{}) bool) {
	<-ctx.Done()
}

var _ kv.Client = (*mockKV)(nil)

// ---- instance ring ----

type update struct {
	kind string
	who  string
}

func (u update) String() string {
	if u.who == "" {
		return u.kind
	}
	return u.kind + "(" + u.who + ")"
}

func baseDesc(now time.Time, za bool) *ring.Desc {
	d := ring.NewDesc()
	mk := func(id, zone string, toks []uint32, ro bool) {
		if !za {
			zone = ""
		}
		in := ring.InstanceDesc{Id: id, Addr: "addr-" + id, Zone: zone, State: ring.ACTIVE, Timestamp: now.Unix(), Tokens: toks, RegisteredTimestamp: now.Unix() - 5000}
		if ro {
			in.ReadOnly, in.ReadOnlyUpdatedTimestamp = true, now.Unix()-4000
		}
		d.Ingesters[id] = in
	}
	mk("i0", "a", []uint32{0, 1 << 30}, false)
	mk("i1", "b", []uint32{1, 1<<30 + 5}, true)
	mk("i2", "a", []uint32{1 << 31, 3 << 30}, false)
	mk("i3", "b", []uint32{1<<31 + 7, M}, false)
	return d
}

// apply produces the next descriptor. share=true mimics the memberlist store: a new map whose untouched
// entries share their token arrays with the previous descriptor; share=false deep-copies everything.
func apply(prev *ring.Desc, u update, now time.Time, share bool) *ring.Desc {
	next := ring.NewDesc()
	for id, in := range prev.Ingesters {
		if !share {
			in.Tokens = append([]uint32(nil), in.Tokens...)
		}
		next.Ingesters[id] = in
	}
	if k1, k2, two := strings.Cut(u.kind, "+"); two {
		// one write that changes two things at once (a lifecycler that re-picks tokens while heartbeating, …)
		return apply(apply(prev, update{k1, u.who}, now, share), update{k2, u.who}, now, share)
	}
	in, ok := next.Ingesters[u.who]
	switch u.kind {
	case "resend":
	case "heartbeat":
		if ok {
			in.Timestamp = now.Unix() + 1
		}
	case "state":
		if ok {
			if in.State == ring.ACTIVE {
				in.State = ring.LEAVING
			} else {
				in.State = ring.ACTIVE
			}
		}
	case "tokens":
		if ok {
			t := append([]uint32(nil), in.Tokens...)
			t[len(t)-1] ^= 0x100
			sort.Slice(t, func(i, j int) bool { return t[i] < t[j] })
			in.Tokens = t
		}
	case "zone":
		if ok && in.Zone != "" {
			if in.Zone == "a" {
				in.Zone = "b"
			} else {
				in.Zone = "a"
			}
		}
	case "addr":
		if ok {
			in.Addr += "'"
		}
	case "regtime":
		if ok {
			in.RegisteredTimestamp = now.Unix()
		}
	case "ro-toggle":
		if ok {
			in.ReadOnly = !in.ReadOnly
			in.ReadOnlyUpdatedTimestamp = now.Unix()
		}
	case "ro-time":
		if ok {
			in.ReadOnlyUpdatedTimestamp = now.Unix() - 30
		}
	case "remove":
		delete(next.Ingesters, u.who)
		return next
	case "add":
		if !ok {
			z := "a"
			if prev.Ingesters["i0"].Zone == "" {
				z = ""
			}
			next.Ingesters[u.who] = ring.InstanceDesc{Id: u.who, Addr: "addr-" + u.who, Zone: z, State: ring.ACTIVE, Timestamp: now.Unix(), Tokens: []uint32{77, 1<<31 + 99}, RegisteredTimestamp: now.Unix()}
		}
		return next
	}
	if ok {
		next.Ingesters[u.who] = in
	}
	return next
}

func descInst(in ring.InstanceDesc) string {
	return fmt.Sprintf("%s|%s|%s|%s|hb%d|%v|reg%d|ro%v@%d", in.Id, in.Addr, in.Zone, in.State, in.Timestamp, in.Tokens, in.RegisteredTimestamp, in.ReadOnly, in.ReadOnlyUpdatedTimestamp)
}

func setStr(rs ring.ReplicationSet, err error) string {
	if err != nil {
		return "err:" + err.Error()
	}
	var s []string
	for _, in := range rs.Instances {
		s = append(s, descInst(in))
	}
	sort.Strings(s)
	return fmt.Sprintf("%v max=%d zones=%d", s, rs.MaxErrors, rs.MaxUnavailableZones)
}

var queryKeys = []uint32{0, 1, 1 << 30, 1<<31 - 1, 1 << 31, M - 1, M}

// answers runs the whole query vector; the list of strings is compared element-wise.
func answers(r *ring.Ring, now time.Time, ids []string, flip bool) []string {
	var out []string
	add := func(name string, v string) { out = append(out, name+" = "+v) }
	sub := func(name string, rr ring.ReadRing) {
		add(name+".members", setStr(rr.GetAllHealthy(ring.Reporting)))
		for _, k := range []uint32{1, 1 << 31} {
			add(fmt.Sprintf("%s.Get(%d)", name, k), setStr(rr.Get(k, ring.Write, nil, nil, nil)))
		}
		add(name+".count", fmt.Sprint(rr.InstancesCount(), rr.InstancesWithTokensCount(), rr.ZonesCount(), rr.WritableInstancesWithTokensCount()))
	}
	for _, k := range queryKeys {
		add(fmt.Sprintf("Get(%d,Write)", k), setStr(r.Get(k, ring.Write, nil, nil, nil)))
		add(fmt.Sprintf("Get(%d,Read)", k), setStr(r.Get(k, ring.Read, nil, nil, nil)))
	}
	add("GetAllHealthy", setStr(r.GetAllHealthy(ring.Reporting)))
	add("GetReplicationSetForOperation(Read)", setStr(r.GetReplicationSetForOperation(ring.Read)))
	add("counts", fmt.Sprint(r.InstancesCount(), r.InstancesWithTokensCount(), r.ZonesCount(), r.Zones(), r.WritableInstancesWithTokensCount(), r.InstancesInZoneCount("a"), r.InstancesWithTokensInZoneCount("b"), r.WritableInstancesWithTokensInZoneCount("a")))
	for _, id := range ids {
		in, err := r.GetInstance(id)
		add("GetInstance("+id+")", fmt.Sprint(descInst(in), err))
		tr, err := r.GetTokenRangesForInstance(id)
		add("GetTokenRangesForInstance("+id+")", fmt.Sprint(tr, err != nil))
	}
	times := []int64{-150, 0, 200}
	if flip { // non-monotonic query times
		times = []int64{200, -150, 0}
	}
	for _, tenant := range []string{"tenant-a", "t2"} {
		for _, size := range []int{1, 2, 0} {
			sub(fmt.Sprintf("ShuffleShard(%s,%d)", tenant, size), r.ShuffleShard(tenant, size))
			for _, dt := range times {
				T := now.Add(time.Duration(dt) * time.Second)
				sub(fmt.Sprintf("ShuffleShardWithLookback(%s,%d,100s,now%+ds)", tenant, size, dt), r.ShuffleShardWithLookback(tenant, size, 100*time.Second, T))
			}
		}
	}
	sub("GetSubringForOperationStates(Read)", r.GetSubringForOperationStates(ring.Read))
	return out
}

func ringCfg(za, cache bool) ring.Config {
	rf := 1
	if za {
		rf = 2
	}
	return ring.Config{HeartbeatTimeout: time.Hour, ReplicationFactor: rf, ZoneAwarenessEnabled: za, SubringCacheDisabled: !cache}
}

type variant struct {
	za, share bool
}

func runSeq(t *testing.T, v variant, seq []update) (viol string, evals int) {
	synctest.Test(t, func(t *testing.T) {
		now := time.Now()
		cur := baseDesc(now, v.za)
		store := newMockKV(cur)
		live, err := ring.NewWithStoreClientAndStrategy(ringCfg(v.za, true), "c13", "ring", store, ring.NewDefaultReplicationStrategy(), nil, log.NewNopLogger())
		if err != nil {
			panic(err)
		}
		if err := services.StartAndAwaitRunning(context.Background(), live); err != nil {
			panic(err)
		}
		<-store.ready
		defer func() { _ = services.StopAndAwaitTerminated(context.Background(), live) }()
		ids := []string{"i0", "i1", "i2", "i3", "i9"}
		compare := func(step int) bool {
			fresh, _ := ring.NewWithStoreClientAndStrategy(ringCfg(v.za, false), "c13f", "ring", nil, ring.NewDefaultReplicationStrategy(), nil, log.NewNopLogger())
			// the fresh client gets its own deep copy of the latest content
			fresh.VerifUpdateRingState(apply(cur, update{kind: "resend"}, time.Now(), false))
			a := answers(live, time.Now(), ids, step%2 == 1)
			b := answers(fresh, time.Now(), ids, step%2 == 1)
			evals += len(a)
			for i := range a {
				if a[i] != b[i] {
					viol = fmt.Sprintf("after step %d the long-lived client answers\n    %s\n  but a client built from the latest content answers\n    %s", step, a[i], b[i])
					return false
				}
			}
			return true
		}
		if !compare(0) {
			return
		}
		for i, u := range seq {
			if u.kind == "advance" {
				time.Sleep(60 * time.Second)
			} else {
				cur = apply(cur, u, time.Now(), v.share)
				// what the KV hands to the watch callback: its own value (the client may keep it)
				store.watch(cur)
			}
			if !compare(i + 1) {
				return
			}
		}
	})
	return
}

func alphabet() []update {
	var a []update
	for _, who := range []string{"i1", "i2"} {
		for _, k := range []string{"heartbeat", "state", "tokens", "zone", "addr", "regtime", "ro-toggle", "ro-time", "remove"} {
			a = append(a, update{k, who})
		}
	}
	a = append(a, update{"tokens+heartbeat", "i1"}, update{"tokens+state", "i1"}, update{"zone+heartbeat", "i2"})
	a = append(a, update{"add", "i9"}, update{"remove", "i9"}, update{"resend", ""}, update{"advance", ""}, update{"ro-toggle", "i0"})
	return a
}

func TestC13Ring(t *testing.T) {
	rep := ev.NewReport("C13", "ring-client")
	depth := 3
	if ev.Thorough() {
		depth = 4
	}
	alpha := alphabet()
	rep.Bound = fmt.Sprintf("base ring of 4 instances (one read-only) with boundary tokens; %d update kinds (heartbeat-only, state-only, tokens, zone, address, registration time, read-only toggle, read-only timestamp, add, remove, resend-equal, clock +60s, and three double changes in one write: tokens+heartbeat, tokens+state, zone+heartbeat); every sequence of length <=%d; 4 variants: zone-awareness on/off × descriptors sharing token arrays with their predecessor (memberlist style) or deep copies; query vector of ~190 answers per step (Get on boundary keys, counts, zones, GetInstance, token ranges, ShuffleShard / ShuffleShardWithLookback for 2 identifiers × 3 sizes × 3 query times in alternating non-monotonic order, and Get / members / counts on every returned subring)", len(alpha), depth)
	rep.Rule = "each sequence is pushed through the real KV watch callback of a long-lived ring client (caches on) inside its own virtual-time bubble; after every step every answer must equal that of a client freshly built from the latest descriptor with caches off; distinct_nontrivial = sequences containing at least one update that the client may absorb without re-indexing (heartbeat/state/resend) after a shard was cached"
	deadline := ev.Deadline(8 * time.Minute)
	variants := []variant{{false, false}, {false, true}, {true, false}, {true, true}}
	var seqs [][]update
	var gen func(cur []update)
	gen = func(cur []update) {
		if len(cur) > 0 {
			seqs = append(seqs, append([]update(nil), cur...))
		}
		if len(cur) == depth {
			return
		}
		for _, u := range alpha {
			gen(append(cur, u))
		}
	}
	gen(nil)
	// only maximal sequences and those not a prefix of another are needed: every prefix is compared on the way.
	var maximal [][]update
	for _, s := range seqs {
		if len(s) == depth {
			maximal = append(maximal, s)
		}
	}
	total := len(maximal) * len(variants)
	var wg sync.WaitGroup
	var mu sync.Mutex
	idx := -1
	stopped := false
	for w := 0; w < runtime.GOMAXPROCS(0); w++ {
		wg.Add(1)
		go func() {
			defer wg.Done()
			for {
				mu.Lock()
				idx++
				i := idx
				mu.Unlock()
				if i >= total {
					return
				}
				if ev.WallNow().After(deadline) || rep.NumViolations() >= 10 {
					mu.Lock()
					stopped = true
					mu.Unlock()
					return
				}
				v, seq := variants[i%len(variants)], maximal[i/len(variants)]
				viol, evals := runSeq(t, v, seq)
				rep.Eval(int64(evals))
				rep.Trans(int64(len(seq)))
				rep.State(1)
				var names []string
				absorb := false
				for _, u := range seq {
					names = append(names, u.String())
					if u.kind == "heartbeat" || u.kind == "state" || u.kind == "resend" {
						absorb = true
					}
				}
				if absorb {
					rep.Distinct(fmt.Sprintf("%v/%s", v, strings.Join(names, ",")))
				}
				if viol != "" {
					rep.Violate(fmt.Sprintf("ring:%v:%s", v, strings.Join(names, ",")), fmt.Sprintf("zone-aware=%v shared-token-arrays=%v, updates [%s]: %s", v.za, v.share, strings.Join(names, " ; "), viol), map[string]any{"variant": fmt.Sprint(v), "sequence": names})
				}
				if i%(total/4+1) == 3 {
					rep.Sample(fmt.Sprintf("za=%v share=%v [%s]", v.za, v.share, strings.Join(names, " ; ")))
				}
			}
		}()
	}
	wg.Wait()
	if stopped {
		rep.NotExhaustive("deadline or violation cap")
	}
	rep.Trace(rep.Transitions)
	if err := rep.Write(); err != nil {
		t.Fatal(err)
	}
}

// ---- partition ring watcher + shard caches ----

type pupdate struct {
	kind string
	p    int32
}

func (u pupdate) String() string { return fmt.Sprintf("%s(%d)", u.kind, u.p) }

func pbase(now time.Time) *ring.PartitionRingDesc {
	d := ring.NewPartitionRingDesc()
	toks := [][]uint32{{0, 1 << 30}, {1, 1<<30 + 5}, {1 << 31, 3 << 30}, {1<<31 + 7, M}}
	for i := 0; i < 4; i++ {
		st := ring.PartitionActive
		if i == 1 {
			st = ring.PartitionInactive
		}
		d.Partitions[int32(i)] = ring.PartitionDesc{Id: int32(i), Tokens: toks[i], State: st, StateTimestamp: now.Unix() - 5000}
	}
	d.Owners["o0"] = ring.OwnerDesc{OwnedPartition: 0, State: ring.OwnerActive, UpdatedTimestamp: now.Unix() - 5000}
	d.Owners["o2"] = ring.OwnerDesc{OwnedPartition: 2, State: ring.OwnerActive, UpdatedTimestamp: now.Unix() - 5000}
	return d
}

func papply(prev *ring.PartitionRingDesc, u pupdate, now time.Time) *ring.PartitionRingDesc {
	next := ring.NewPartitionRingDesc()
	for id, p := range prev.Partitions {
		next.Partitions[id] = p
	}
	for id, o := range prev.Owners {
		next.Owners[id] = o
	}
	p, ok := next.Partitions[u.p]
	switch u.kind {
	case "activate", "deactivate", "pending":
		if ok {
			st := map[string]ring.PartitionState{"activate": ring.PartitionActive, "deactivate": ring.PartitionInactive, "pending": ring.PartitionPending}[u.kind]
			if p.State != st {
				p.State, p.StateTimestamp = st, now.Unix()
				next.Partitions[u.p] = p
			}
		}
	case "remove":
		delete(next.Partitions, u.p)
	case "add":
		if !ok {
			next.Partitions[u.p] = ring.PartitionDesc{Id: u.p, Tokens: []uint32{77 + uint32(u.p), 1<<31 + 99 + uint32(u.p)}, State: ring.PartitionActive, StateTimestamp: now.Unix()}
		}
	case "owner":
		id := fmt.Sprintf("o%d", u.p)
		if _, has := next.Owners[id]; has {
			delete(next.Owners, id)
		} else {
			next.Owners[id] = ring.OwnerDesc{OwnedPartition: u.p, State: ring.OwnerActive, UpdatedTimestamp: now.Unix()}
		}
	case "resend":
	}
	return next
}

// shardStr: what a shard exposes — its partitions and, per partition, its owners (a shard is a ring of its own)
func shardStr(s *ring.PartitionRing) string {
	var owners []string
	for _, id := range s.PartitionIDs() {
		o := s.PartitionOwnerIDsCopy(id)
		sort.Strings(o)
		m := s.MultiPartitionOwnerIDs(id, nil)
		sort.Strings(m)
		owners = append(owners, fmt.Sprintf("%d:%v/%v", id, o, m))
	}
	return fmt.Sprint(s.PartitionIDs(), s.ActivePartitionIDs(), owners)
}

func panswers(pr *ring.PartitionRing, now time.Time, flip bool) []string {
	var out []string
	add := func(n, v string) { out = append(out, n+" = "+v) }
	add("ids", fmt.Sprint(pr.PartitionIDs(), pr.ActivePartitionIDs(), pr.InactivePartitionIDs(), pr.PendingPartitionIDs(), pr.PartitionsCount(), pr.ActivePartitionsCount()))
	for _, k := range queryKeys {
		p, err := pr.ActivePartitionForKey(k)
		add(fmt.Sprintf("ActivePartitionForKey(%d)", k), fmt.Sprint(p, err))
	}
	for i := int32(0); i < 6; i++ {
		tr, err := pr.GetTokenRangesForPartition(i)
		add(fmt.Sprintf("ranges(%d)", i), fmt.Sprint(tr, err != nil, pr.PartitionOwnerIDsCopy(i)))
	}
	// query times in milliseconds relative to now; the fractional ones put the start of the 100 s window half a
	// second after a state change made just now (+100.5 s) or one clock step ago (+40.5 s): the shard and the
	// validity of its cache entry are decided with one-second granularity
	times := []int64{-150000, 0, 40500, 100500, 200000}
	if flip {
		times = []int64{200000, 100500, -150000, 40500, 0}
	}
	for _, tenant := range []string{"tenant-a", "t2"} {
		for _, size := range []int{1, 2, 0, 9} {
			s, err := pr.ShuffleShard(tenant, size)
			if err != nil {
				add(fmt.Sprintf("ShuffleShard(%s,%d)", tenant, size), "err "+err.Error())
			} else {
				add(fmt.Sprintf("ShuffleShard(%s,%d)", tenant, size), shardStr(s))
			}
			for _, dt := range times {
				s, err := pr.ShuffleShardWithLookback(tenant, size, 100*time.Second, now.Add(time.Duration(dt)*time.Millisecond))
				n := fmt.Sprintf("ShuffleShardWithLookback(%s,%d,100s,now%+dms)", tenant, size, dt)
				if err != nil {
					add(n, "err "+err.Error())
				} else {
					add(n, shardStr(s))
				}
			}
		}
	}
	return out
}

func runPSeq(t *testing.T, lruSize int, seq []pupdate) (viol string, evals int) {
	synctest.Test(t, func(t *testing.T) {
		now := time.Now()
		cur := pbase(now)
		store := newMockKV(cur)
		opts := ring.PartitionRingOptions{ShuffleShardCacheSize: lruSize}
		w := ring.NewPartitionRingWatcherWithOptions("c13", "pring", store, opts, log.NewNopLogger(), nil)
		if err := services.StartAndAwaitRunning(context.Background(), w); err != nil {
			panic(err)
		}
		<-store.ready
		defer func() { _ = services.StopAndAwaitTerminated(context.Background(), w) }()
		compare := func(step int) bool {
			fresh, err := ring.NewPartitionRing(*papply(cur, pupdate{kind: "resend"}, time.Now()))
			if err != nil {
				panic(err)
			}
			// query the watcher's ring twice: the second pass is served from its shard caches
			a0 := panswers(w.PartitionRing(), time.Now(), step%2 == 1)
			a := panswers(w.PartitionRing(), time.Now(), step%2 == 0)
			b0 := panswers(fresh, time.Now(), step%2 == 1)
			fresh2, _ := ring.NewPartitionRing(*papply(cur, pupdate{kind: "resend"}, time.Now()))
			b := panswers(fresh2, time.Now(), step%2 == 0)
			evals += 2 * len(a)
			for i := range a {
				if a0[i] != b0[i] {
					viol = fmt.Sprintf("after step %d the watcher's ring answers\n    %s\n  but a ring built from the latest content answers\n    %s", step, a0[i], b0[i])
					return false
				}
				if a[i] != b[i] {
					viol = fmt.Sprintf("after step %d (second pass, cached) the watcher's ring answers\n    %s\n  but a ring built from the latest content answers\n    %s", step, a[i], b[i])
					return false
				}
			}
			return true
		}
		if !compare(0) {
			return
		}
		for i, u := range seq {
			if u.kind == "advance" {
				time.Sleep(60 * time.Second)
			} else {
				cur = papply(cur, u, time.Now())
				store.watch(cur)
			}
			if !compare(i + 1) {
				return
			}
		}
	})
	return
}

func TestC13Partitions(t *testing.T) {
	rep := ev.NewReport("C13", "partition-watcher")
	depth := 3
	if ev.Thorough() {
		depth = 4
	}
	var alpha []pupdate
	for _, p := range []int32{1, 2} {
		for _, k := range []string{"activate", "deactivate", "pending", "remove", "owner"} {
			alpha = append(alpha, pupdate{k, p})
		}
	}
	alpha = append(alpha, pupdate{"add", 5}, pupdate{"resend", 0}, pupdate{"advance", 0})
	rep.Bound = fmt.Sprintf("base partition ring of 4 partitions (one inactive) and 2 owners; %d update kinds (state changes, removal, addition, owner toggles, resend, clock +60s); every sequence of length %d; shard caches: unbounded map and LRU of size 1; query vector: routing on boundary keys, ids by state, ranges, owners, ShuffleShard / ShuffleShardWithLookback for 2 identifiers × 4 sizes × 3 query times (two passes per step, alternating time order, so the second pass hits the caches)", len(alpha), depth)
	rep.Rule = "updates pushed through the real PartitionRingWatcher (KV watch callback); after every step every answer of the watcher's ring — first pass and cached second pass — equals that of a ring built from the latest descriptor; distinct_nontrivial = sequences with a state change followed by a clock advance"
	deadline := ev.Deadline(8 * time.Minute)
	var seqs [][]pupdate
	var gen func(cur []pupdate)
	gen = func(cur []pupdate) {
		if len(cur) == depth {
			seqs = append(seqs, append([]pupdate(nil), cur...))
			return
		}
		for _, u := range alpha {
			gen(append(cur, u))
		}
	}
	gen(nil)
	total := len(seqs) * 2
	var wg sync.WaitGroup
	var mu sync.Mutex
	idx := -1
	stopped := false
	for w := 0; w < runtime.GOMAXPROCS(0); w++ {
		wg.Add(1)
		go func() {
			defer wg.Done()
			for {
				mu.Lock()
				idx++
				i := idx
				mu.Unlock()
				if i >= total {
					return
				}
				if ev.WallNow().After(deadline) || rep.NumViolations() >= 10 {
					mu.Lock()
					stopped = true
					mu.Unlock()
					return
				}
				lru, seq := []int{0, 1}[i%2], seqs[i/2]
				viol, evals := runPSeq(t, lru, seq)
				rep.Eval(int64(evals))
				rep.Trans(int64(len(seq)))
				rep.State(1)
				var names []string
				nt := false
				for k, u := range seq {
					names = append(names, u.String())
					if u.kind == "advance" && k > 0 && seq[k-1].kind != "advance" && seq[k-1].kind != "resend" {
						nt = true
					}
				}
				if nt {
					rep.Distinct(fmt.Sprintf("%d/%s", lru, strings.Join(names, ",")))
				}
				if viol != "" {
					rep.Violate(fmt.Sprintf("pring:%d:%s", lru, strings.Join(names, ",")), fmt.Sprintf("shard cache size %d (0 = unbounded map), updates [%s]: %s", lru, strings.Join(names, " ; "), viol), nil)
				}
				if i%(total/4+1) == 3 {
					rep.Sample(fmt.Sprintf("cache=%d [%s]", lru, strings.Join(names, " ; ")))
				}
			}
		}()
	}
	wg.Wait()
	if stopped {
		rep.NotExhaustive("deadline or violation cap")
	}
	rep.Trace(rep.Transitions)
	if err := rep.Write(); err != nil {
		t.Fatal(err)
	}
}
