// C20 — tenant identifiers are validated, normalised and propagated unchanged. Engine E1:
// every short string over a separator-rich alphabet, every list over a pool of elements, every
// hop chain of length <= 4, against an independent reference reading of the documented rules.
package c20

import (
	"context"
	"errors"
	"fmt"
	"net/http"
	"net/http/httptest"
	"sort"
	"strings"
	"testing"
	"time"

	"google.golang.org/grpc"
	"google.golang.org/grpc/metadata"

	"github.com/grafana/dskit/middleware"
	"github.com/grafana/dskit/tenant"
	"github.com/grafana/dskit/user"

	"verif/enum"
	"verif/ev"
)

const documented = "abcdefghijklmnopqrstuvwxyzABCDEFGHIJKLMNOPQRSTUVWXYZ0123456789!-_.*'()"

func refValid(id string) bool {
	for i := 0; i < len(id); i++ {
		if strings.IndexByte(documented, id[i]) < 0 {
			return false
		}
	}
	return len(id) <= 150 && id != "." && id != ".."
}

func refIDs(s string) []string {
	var ids []string
	for _, p := range strings.Split(s, "|") {
		if i := strings.IndexByte(p, ':'); i >= 0 {
			p = p[:i]
		}
		ids = append(ids, p)
	}
	return ids
}

func uniqSorted(ids []string) []string {
	s := append([]string(nil), ids...)
	sort.Strings(s)
	var out []string
	for i, x := range s {
		if i == 0 || x != s[i-1] {
			out = append(out, x)
		}
	}
	return out
}

// checkOrgID runs every validation oracle on one org-id value.
func checkOrgID(rep *ev.Report, s string) {
	ctx := user.InjectOrgID(context.Background(), s)
	ids := refIDs(s)
	allValid := true
	for _, id := range ids {
		if !refValid(id) {
			allValid = false
		}
	}
	same := true
	for _, id := range ids {
		if id != ids[0] {
			same = false
		}
	}
	viol := func(kind, what string) {
		rep.Violate(fmt.Sprintf("val:%s:%q", kind, s), fmt.Sprintf("org id %q: %s", s, what), map[string]any{"orgID": s})
	}
	tid, terr := tenant.TenantID(ctx)
	tids, tserr := tenant.TenantIDs(ctx)
	rep.Eval(2)
	if terr == nil {
		if !refValid(tid) || strings.ContainsAny(tid, "/|:") {
			viol("unsafe", fmt.Sprintf("TenantID accepted %q which is not a documented-safe identifier", tid))
		}
		if !same || tid != ids[0] {
			viol("single", fmt.Sprintf("TenantID returned %q although supplied identifiers are %q", tid, ids))
		}
	} else if same && allValid {
		viol("single-rej", fmt.Sprintf("TenantID failed (%v) although all supplied identifiers denote the valid tenant %q", terr, ids[0]))
	}
	if tserr == nil {
		want := uniqSorted(ids)
		if !allValid {
			viol("multi-unsafe", fmt.Sprintf("TenantIDs accepted %q although an element is invalid", tids))
		} else if fmt.Sprintf("%q", tids) != fmt.Sprintf("%q", want) {
			viol("multi", fmt.Sprintf("TenantIDs = %q, want sorted duplicate-free %q", tids, want))
		}
		for _, id := range tids {
			if !refValid(id) || strings.ContainsAny(id, "/|:") {
				viol("multi-elem", fmt.Sprintf("TenantIDs returned unsafe element %q", id))
			}
		}
	} else if allValid {
		viol("multi-rej", fmt.Sprintf("TenantIDs failed (%v) although every element is valid", tserr))
	}
	// agreement
	if (terr == nil) != (tserr == nil && len(tids) == 1) {
		if !(terr != nil && tserr == nil && len(tids) != 1) {
			viol("agree", fmt.Sprintf("TenantID=(%q,%v) but TenantIDs=(%q,%v)", tid, terr, tids, tserr))
		}
	}
	if terr == nil && tserr == nil && (len(tids) != 1 || tids[0] != tid) {
		viol("agree2", fmt.Sprintf("TenantID=%q but TenantIDs=%q", tid, tids))
	}
	if tserr == nil && len(tids) > 1 && !errors.Is(terr, user.ErrTooManyOrgIDs) {
		viol("toomany", fmt.Sprintf("TenantIDs=%q but TenantID returned (%q,%v), want ErrTooManyOrgIDs", tids, tid, terr))
	}
	if !allValid && (terr == nil || tserr == nil) {
		viol("invalid-accepted", fmt.Sprintf("an element is invalid but TenantID err=%v TenantIDs err=%v", terr, tserr))
	}
	// metadata-aware extraction agrees
	mid, _, merr := tenant.ExtractWithMetadata(ctx)
	rep.Eval(1)
	if merr == nil && (terr != nil || mid != tid) {
		viol("meta", fmt.Sprintf("ExtractWithMetadata returned %q but TenantID returned (%q,%v)", mid, tid, terr))
	}
	// metadata must not influence the result: replace each element's metadata by another one
	if allValid {
		alt := make([]string, len(ids))
		for i, id := range ids {
			alt[i] = id + ":k=v"
		}
		c2 := user.InjectOrgID(context.Background(), strings.Join(alt, "|"))
		tid2, terr2 := tenant.TenantID(c2)
		tids2, tserr2 := tenant.TenantIDs(c2)
		rep.Eval(2)
		if (terr2 == nil) != (terr == nil) || tid2 != tid || fmt.Sprintf("%q", tids2) != fmt.Sprintf("%q", tids) || (tserr2 == nil) != (tserr == nil) {
			viol("meta-indep", fmt.Sprintf("with metadata k=v attached: TenantID=(%q,%v) TenantIDs=(%q,%v); without: (%q,%v) (%q,%v)", tid2, terr2, tids2, tserr2, tid, terr, tids, tserr))
		}
	}
	if terr == nil || (tserr == nil && len(tids) > 1) {
		rep.Distinct(s)
	}
}

func TestC20Validation(t *testing.T) {
	rep := ev.NewReport("C20", "validation")
	sigma := []byte{'a', 'Z', '0', '-', '.', '|', ':', '/', '=', ' ', 0x00, 0x7f, 0xc3}
	L := 5
	if ev.Thorough() {
		L = 6
	}
	rep.Bound = fmt.Sprintf("all strings of length <=%d over %q; all 256 single bytes alone and embedded; every code point U+0080..U+FFFF (valid UTF-8) alone, doubled, embedded and in a list; 149/150/151-byte identifiers alone and inside lists; all lists of <=4 elements over a 10-element pool with and without metadata", L, string(sigma))
	rep.Rule = "real TenantID / TenantIDs / ExtractWithMetadata vs an independent reading of the documented rules (split on '|', cut at first ':', documented character set, <=150 bytes, not '.'/'..'); agreement between single and multi resolution; metadata independence; distinct_nontrivial = accepted org ids"
	deadline := ev.Deadline(10 * time.Minute)
	total := 0
	p := 1
	for l := 0; l <= L; l++ {
		total += p
		p *= len(sigma)
	}
	ok := enum.Par(total, deadline, func() bool { return rep.NumViolations() >= 20 }, func(ix int) {
		// decode index into (length, digits)
		l, base, x := 0, 1, ix
		for x >= base {
			x -= base
			base *= len(sigma)
			l++
		}
		b := make([]byte, l)
		for i := range b {
			b[i] = sigma[x%len(sigma)]
			x /= len(sigma)
		}
		checkOrgID(rep, string(b))
		rep.Trans(1)
		if ix%(total/4+1) == 9 {
			rep.Sample(fmt.Sprintf("%q", string(b)))
		}
	})
	if !ok {
		rep.NotExhaustive("deadline or violation cap")
	}
	for c := 0; c < 256; c++ {
		checkOrgID(rep, string([]byte{byte(c)}))
		checkOrgID(rep, string([]byte{'a', byte(c), 'a'}))
		checkOrgID(rep, string([]byte{'a', '|', byte(c)}))
	}
	// every code point of the basic multilingual plane above ASCII (as valid UTF-8), alone, doubled, embedded and in a list:
	// the documented set is ASCII only, whatever the low bits of a code point look like
	for r := rune(0x80); r <= 0xFFFF; r++ {
		if r >= 0xD800 && r <= 0xDFFF {
			continue
		}
		c := string(r)
		for _, s := range []string{c, c + c, "a" + c, c + "|a", "a:k=" + c} {
			checkOrgID(rep, s)
		}
	}
	for _, n := range []int{149, 150, 151} {
		long := strings.Repeat("a", n)
		for _, s := range []string{long, long + "|" + long, "a|" + long, long + ":k=v", long + "|b", "." + long[1:]} {
			checkOrgID(rep, s)
		}
	}
	pool := []string{"a", "Z", "a:k=v", "Z:", "", ".", "..", "a/", "a b", "a:x=y:z=w"}
	for l := 1; l <= 4; l++ {
		n := 1
		for i := 0; i < l; i++ {
			n *= len(pool)
		}
		for ix := 0; ix < n; ix++ {
			x := ix
			parts := make([]string, l)
			for i := range parts {
				parts[i] = pool[x%len(pool)]
				x /= len(pool)
			}
			checkOrgID(rep, strings.Join(parts, "|"))
			rep.Trans(1)
		}
	}
	rep.State(rep.Transitions)
	rep.Trace(rep.Evaluations)
	if err := rep.Write(); err != nil {
		t.Fatal(err)
	}
}

// ---- propagation ----

type hop func(ctx context.Context) (context.Context, error)

func hopHTTP(ctx context.Context) (context.Context, error) {
	req := &http.Request{Header: http.Header{}}
	if err := user.InjectOrgIDIntoHTTPRequest(ctx, req); err != nil {
		return nil, err
	}
	_, out, err := user.ExtractOrgIDFromHTTPRequest(req.WithContext(context.Background()))
	return out, err
}

func hopHTTPMiddleware(ctx context.Context) (context.Context, error) {
	req := httptest.NewRequest("GET", "/x", nil)
	if err := user.InjectOrgIDIntoHTTPRequest(ctx, req); err != nil {
		return nil, err
	}
	var got context.Context
	h := middleware.AuthenticateUser.Wrap(http.HandlerFunc(func(_ http.ResponseWriter, r *http.Request) { got = r.Context() }))
	rec := httptest.NewRecorder()
	h.ServeHTTP(rec, req)
	if got == nil {
		if rec.Code != http.StatusUnauthorized {
			return nil, fmt.Errorf("middleware rejected with status %d", rec.Code)
		}
		return nil, user.ErrNoOrgID
	}
	return got, nil
}

func outgoingToIncoming(ctx context.Context) context.Context {
	md, _ := metadata.FromOutgoingContext(ctx)
	return metadata.NewIncomingContext(context.Background(), md.Copy())
}

func hopGRPC(ctx context.Context) (context.Context, error) {
	out, err := user.InjectIntoGRPCRequest(ctx)
	if err != nil {
		return nil, err
	}
	_, in, err := user.ExtractFromGRPCRequest(outgoingToIncoming(out))
	return in, err
}

func hopGRPCInterceptors(ctx context.Context) (context.Context, error) {
	var wire context.Context
	err := middleware.ClientUserHeaderInterceptor(ctx, "/m", nil, nil, nil, func(c context.Context, _ string, _, _ interface{}, _ *grpc.ClientConn, _ ...grpc.CallOption) error {
		wire = c
		return nil
	})
	if err != nil {
		return nil, err
	}
	var got context.Context
	_, err = middleware.ServerUserHeaderInterceptor(outgoingToIncoming(wire), nil, nil, func(c context.Context, _ interface{}) (interface{}, error) {
		got = c
		return nil, nil
	})
	return got, err
}

var hops = []struct {
	name string
	f    hop
	http bool
}{{"http", hopHTTP, true}, {"http-mw", hopHTTPMiddleware, true}, {"grpc", hopGRPC, false}, {"grpc-ic", hopGRPCInterceptors, false}}

func TestC20Propagation(t *testing.T) {
	rep := ev.NewReport("C20", "propagation")
	sigma := []byte{'a', 'Z', '-', '.', '|', ':', '/', ' ', 0x7f, 0xc3}
	rep.Bound = fmt.Sprintf("org ids: all strings of length <=3 (thorough 4) over %q plus 150/151-byte ids; every chain of 1..4 hops over {HTTP inject/extract, HTTP through AuthenticateUser, gRPC inject/extract, gRPC client+server interceptors}; absent (also: a context carrying only a user id) / empty / conflicting / multi-valued cases", string(sigma))
	rep.Rule = "the org id placed in a context arrives byte-identical after every hop; an empty or absent id is rejected with ErrNoOrgID at an HTTP hop and never replaced by a default; 0 or >=2 gRPC metadata values are rejected; a conflicting pre-existing header/metadata value is refused; distinct_nontrivial = (org id, chain) pairs that went through >=2 hops"
	deadline := ev.Deadline(10 * time.Minute)
	var ids []string
	var gen func(prefix []byte, l int)
	gen = func(prefix []byte, l int) {
		ids = append(ids, string(prefix))
		if l == 0 {
			return
		}
		for _, c := range sigma {
			gen(append(append([]byte(nil), prefix...), c), l-1)
		}
	}
	idLen := 3
	if ev.Thorough() {
		idLen = 4
	}
	gen(nil, idLen)
	ids = append(ids, strings.Repeat("a", 150), strings.Repeat("a", 151), "tenant-1|tenant-2:k=v")
	var chains [][]int
	for l := 1; l <= 4; l++ {
		n := 1
		for i := 0; i < l; i++ {
			n *= len(hops)
		}
		for ix := 0; ix < n; ix++ {
			x := ix
			c := make([]int, l)
			for i := range c {
				c[i] = x % len(hops)
				x /= len(hops)
			}
			chains = append(chains, c)
		}
	}
	ok := enum.Par(len(ids)*len(chains), deadline, func() bool { return rep.NumViolations() >= 20 }, func(ix int) {
		id, chain := ids[ix%len(ids)], chains[ix/len(ids)]
		ctx := user.InjectOrgID(context.Background(), id)
		var names []string
		for hi, h := range chain {
			names = append(names, hops[h].name)
			out, err := hops[h].f(ctx)
			rep.Eval(1)
			rep.Trans(1)
			cs := fmt.Sprintf("%q via %v", id, names)
			if id == "" && hops[h].http {
				if !errors.Is(err, user.ErrNoOrgID) {
					rep.Violate("prop:empty:"+cs, fmt.Sprintf("empty org id through %v: want rejection with ErrNoOrgID, got ctx=%v err=%v", names, out != nil, err), nil)
				}
				return
			}
			if err != nil {
				rep.Violate("prop:err:"+cs, fmt.Sprintf("org id %q through %v: unexpected error %v", id, names, err), nil)
				return
			}
			got, gerr := user.ExtractOrgID(out)
			if gerr != nil || got != id {
				rep.Violate("prop:changed:"+cs, fmt.Sprintf("org id %q through %v arrived as (%q, %v)", id, names, got, gerr), nil)
				return
			}
			ctx = out
			if hi >= 1 {
				rep.Distinct(fmt.Sprintf("%q/%v", id, chain[:hi+1]))
			}
		}
		if ix%(len(ids)*len(chains)/4+1) == 5 {
			rep.Sample(fmt.Sprintf("%q via %v", id, names))
		}
	})
	if !ok {
		rep.NotExhaustive("deadline or violation cap")
	}
	// absent / conflicting / multi-valued
	expect := func(name string, err error, want error) {
		rep.Eval(1)
		if !errors.Is(err, want) {
			rep.Violate("prop:case:"+name, fmt.Sprintf("%s: got %v, want %v", name, err, want), nil)
		}
	}
	bg := context.Background()
	for _, h := range hops {
		_, err := h.f(bg)
		expect("no org id in context through "+h.name, err, user.ErrNoOrgID)
	}
	// a context that carries the package's OTHER identifier (user id) but no org id is still a context without org id
	for _, c := range []struct {
		name string
		ctx  context.Context
	}{{"a user id only", user.InjectUserID(bg, "u")}, {"an empty user id only", user.InjectUserID(bg, "")}, {"two user ids in its lineage", user.InjectUserID(user.InjectUserID(bg, "u"), "v")}} {
		_, err := user.ExtractOrgID(c.ctx)
		expect("ExtractOrgID on a context with "+c.name, err, user.ErrNoOrgID)
		for _, h := range hops {
			_, err := h.f(c.ctx)
			expect("context with "+c.name+" through "+h.name, err, user.ErrNoOrgID)
		}
	}
	// and the user id never disturbs the org id, whichever is injected first
	for _, id := range []string{"a", "a|b", "t:k=v"} {
		for i, c := range []context.Context{user.InjectUserID(user.InjectOrgID(bg, id), "u"), user.InjectOrgID(user.InjectUserID(bg, "u"), id)} {
			rep.Eval(1)
			if got, err := user.ExtractOrgID(c); err != nil || got != id {
				rep.Violate(fmt.Sprintf("prop:case:both:%s:%d", id, i), fmt.Sprintf("org id %q injected next to a user id (order %d) is extracted as %q, %v", id, i, got, err), nil)
			}
			if got, err := user.ExtractUserID(c); err != nil || got != "u" {
				rep.Violate(fmt.Sprintf("prop:case:both-user:%s:%d", id, i), fmt.Sprintf("user id injected next to org id %q (order %d) is extracted as %q, %v", id, i, got, err), nil)
			}
		}
	}
	_, _, err := user.ExtractOrgIDFromHTTPRequest(&http.Request{Header: http.Header{}})
	expect("HTTP request without header", err, user.ErrNoOrgID)
	_, _, err = user.ExtractFromGRPCRequest(bg)
	expect("gRPC request without metadata", err, user.ErrNoOrgID)
	_, _, err = user.ExtractFromGRPCRequest(metadata.NewIncomingContext(bg, metadata.MD{}))
	expect("gRPC request with empty metadata", err, user.ErrNoOrgID)
	_, _, err = user.ExtractFromGRPCRequest(metadata.NewIncomingContext(bg, metadata.MD{"x-scope-orgid": {"a", "b"}}))
	expect("gRPC request with two org id values", err, user.ErrNoOrgID)
	_, _, err = user.ExtractFromGRPCRequest(metadata.NewIncomingContext(bg, metadata.MD{"x-scope-orgid": {"a", "a"}}))
	expect("gRPC request with the same org id twice", err, user.ErrNoOrgID)
	req := &http.Request{Header: http.Header{}}
	req.Header.Set(user.OrgIDHeaderName, "other")
	expect("HTTP inject over a different header", user.InjectOrgIDIntoHTTPRequest(user.InjectOrgID(bg, "a"), req), user.ErrDifferentOrgIDPresent)
	_, err = user.InjectIntoGRPCRequest(metadata.NewOutgoingContext(user.InjectOrgID(bg, "a"), metadata.MD{"x-scope-orgid": {"other"}}))
	expect("gRPC inject over a different value", err, user.ErrDifferentOrgIDPresent)
	_, err = user.InjectIntoGRPCRequest(metadata.NewOutgoingContext(user.InjectOrgID(bg, "a"), metadata.MD{"x-scope-orgid": {"a", "a"}}))
	expect("gRPC inject over two values", err, user.ErrTooManyOrgIDs)
	// same value already present is fine and unchanged
	c2, err := user.InjectIntoGRPCRequest(metadata.NewOutgoingContext(user.InjectOrgID(bg, "a"), metadata.MD{"x-scope-orgid": {"a"}}))
	if err != nil {
		rep.Violate("prop:case:same", fmt.Sprintf("gRPC inject over the same value: %v", err), nil)
	} else if md, _ := metadata.FromOutgoingContext(c2); len(md["x-scope-orgid"]) != 1 || md["x-scope-orgid"][0] != "a" {
		rep.Violate("prop:case:same2", fmt.Sprintf("gRPC inject over the same value changed metadata to %v", md), nil)
	}
	rep.State(int64(len(ids)))
	rep.Trace(rep.Evaluations)
	if err := rep.Write(); err != nil {
		t.Fatal(err)
	}
}
