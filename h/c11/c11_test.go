// C11 — quorum reads return only quorum-backed results and release everything else.
// Engine E2: ring/replication_set.go + replication_set_tracker.go under the controlled scheduler
// (sync / atomic / math/rand shims: rand.Perm and rand.Shuffle are explorer choices), virtual
// clock for hedging. Every outcome vector × completion order × release permutation × hedge
// timing × caller cancellation is enumerated per scenario.
package c11

import (
	"context"
	"errors"
	"fmt"
	"os"
	"sort"
	"strings"
	"testing"
	"testing/synctest"
	"time"

	"github.com/grafana/dskit/ring"

	"verif/ev"
	"verif/sched"
	shimrand "verif/shim/rand"
)

type scenario struct {
	name       string
	zones      []string // zone per instance ("" = none)
	maxErrors  int
	maxUnavail int
	zoneAware  bool
	minimize   bool
	hedge      bool
	terminal   bool // IsTerminalError matches errTerminal; outcome "terminal error" offered
	cancel     bool // caller cancellation thread; outcome "wait for ctx then fail" offered
	noCancelV  bool // DoUntilQuorumWithoutSuccessfulContextCancellation
	sorter     bool // fixed zone order
	ctxTerm    bool // outcome "terminal error, but only after the call's own context has ended" offered (with terminal)
	cancelAny  bool // with cancel: the caller's context may also end while the caller is in the middle of processing a result
}

func (s scenario) String() string {
	return fmt.Sprintf("%s[zones=%q maxErr=%d maxUnavailZones=%d za=%v min=%v hedge=%v term=%v cancel=%v nocancelvariant=%v sorter=%v]", s.name, s.zones, s.maxErrors, s.maxUnavail, s.zoneAware, s.minimize, s.hedge, s.terminal, s.cancel, s.noCancelV, s.sorter)
}

var errTerminal = errors.New("terminal failure")
var errCallerCancelled = errors.New("caller gave up")

const hedgeDelay = 5 * time.Second

type fcall struct {
	id            string
	zone          string
	startSeq      int64
	endSeq        int64
	outcome       string // ok | err | term | ctx
	ctx           context.Context
	startStepTick int
}

func runOne(t *testing.T, sc scenario, ch *sched.Chooser) (res sched.Result) {
	synctest.Test(t, func(t *testing.T) {
		shimrand.Enumerate = true
		e := sched.NewExec(ch)
		e.MaxSteps = 3000
		e.Quantum = hedgeDelay
		ctx, cancel := context.WithCancelCause(context.Background())
		defer cancel(nil)
		n := len(sc.zones)
		set := ring.ReplicationSet{MaxErrors: sc.maxErrors, MaxUnavailableZones: sc.maxUnavail, ZoneAwarenessEnabled: sc.zoneAware}
		for i, z := range sc.zones {
			id := fmt.Sprintf("i%d", i)
			set.Instances = append(set.Instances, ring.InstanceDesc{Id: id, Addr: id, Zone: z})
		}
		cfg := ring.DoUntilQuorumConfig{MinimizeRequests: sc.minimize}
		if sc.hedge {
			cfg.HedgingDelay = hedgeDelay
		}
		if sc.terminal {
			cfg.IsTerminalError = func(err error) bool { return errors.Is(err, errTerminal) }
		}
		if sc.zoneAware || sc.maxUnavail > 0 {
			// The default sorter shuffles a slice built in Go map order, which no schedule controls; a sorter
			// that sorts and then applies a permutation chosen by the explorer enumerates the same orders.
			cfg.ZoneSorter = func(z []string) []string {
				sort.Strings(z)
				if sc.sorter || len(z) < 2 {
					return z
				}
				f := 1
				for i := 2; i <= len(z); i++ {
					f *= i
				}
				k := sched.Choose("zone-order", f, false)
				out := make([]string, 0, len(z))
				rest := append([]string(nil), z...)
				for i := len(z); i >= 1; i-- {
					f /= i
					j := k / f
					k %= f
					out = append(out, rest[j])
					rest = append(rest[:j], rest[j+1:]...)
				}
				copy(z, out)
				return z
			}
		}
		calls := map[string]*fcall{}
		ticks := 0
		returned := false
		callerStarted := false
		var retIDs []string
		var retErr error
		f := func(fctx context.Context, in *ring.InstanceDesc, _ context.CancelCauseFunc) (string, error) {
			sched.SetName("f:" + in.Id)
			sched.Yield("f-enter")
			if _, dup := calls[in.Id]; dup {
				sched.Obs("DUPLICATE-CALL " + in.Id)
			}
			c := &fcall{id: in.Id, zone: in.Zone, ctx: fctx, startStepTick: ticks}
			calls[in.Id] = c
			sched.Obs("f-start " + in.Id)
			kinds := []string{"ok", "err"}
			if sc.terminal && !sc.ctxTerm {
				kinds = append(kinds, "term")
			}
			if sc.cancel && !sc.ctxTerm {
				kinds = append(kinds, "ctx")
			}
			if sc.ctxTerm { // the canceller is only there to end executions in which such a call would wait for ever
				kinds = append(kinds, "ctxterm")
			}
			switch kinds[sched.Choose("outcome", len(kinds), false)] {
			case "ok":
				c.outcome = "ok"
				sched.Obs("f-end " + in.Id + " ok")
				return in.Id, nil
			case "err":
				c.outcome = "err"
				sched.Obs("f-end " + in.Id + " err")
				return "", fmt.Errorf("failure of %s", in.Id)
			case "term":
				c.outcome = "term"
				sched.Obs("f-end " + in.Id + " term")
				return "", fmt.Errorf("%w at %s", errTerminal, in.Id)
			case "ctxterm":
				// answers only once its own context has ended (its zone failed, or the call is over), and then with
				// a terminal error
				<-fctx.Done()
				sched.Yield("f-ctx-done")
				c.outcome = "term"
				sched.Obs("f-end " + in.Id + " term")
				return "", fmt.Errorf("%w at %s", errTerminal, in.Id)
			}
			<-fctx.Done()
			sched.Yield("f-ctx-done")
			c.outcome = "ctx"
			sched.Obs("f-end " + in.Id + " ctx")
			return "", fctx.Err()
		}
		cleanup := func(r string) { sched.Obs("cleanup " + r) }
		// The hedging tick is offered only while the caller sits in its select (not parked at a hook): a tick that
		// lands while the caller is mid-way through processing would leave two ready select cases (Go picks at random).
		e.ClockOn = func() bool {
			return sc.hedge && callerStarted && !returned && ticks < n+1 && !e.ParkedInCond("caller")
		}
		e.OnClock = func() { ticks++ }
		e.Enable()
		e.Go("caller", func() {
			callerStarted = true
			var out []string
			var err error
			if sc.noCancelV {
				out, err = ring.DoUntilQuorumWithoutSuccessfulContextCancellation(ctx, set, cfg, f, cleanup)
			} else {
				out, err = ring.DoUntilQuorum(ctx, set, cfg, func(c context.Context, d *ring.InstanceDesc) (string, error) { return f(c, d, nil) }, cleanup)
			}
			retIDs, retErr = out, err
			returned = true
			sched.Obs(fmt.Sprintf("return %v err=%v", out, err))
		})
		if sc.cancel {
			e.Go("zz-cancel", func() {
				// Cancel only while the caller is inside its select (not parked at a hook and already started):
				// a cancellation that lands between "decide to release" and the release itself makes the
				// instance goroutine's select see two ready cases, which Go resolves at random (either answer is
				// allowed by the documentation: f may not be called at all once the context is cancelled).
				// (cancelAny — all requests started at once, no hedging: the only select that can then see two ready cases
				// is the main loop's, whose pick is an explorer choice through the vsel seam)
				sched.YieldUntil("cancel-window", func() bool { return callerStarted && (sc.cancelAny || !e.ParkedInCond("caller")) })
				sched.Obs("cancel")
				cancel(errCallerCancelled)
			})
		}
		// count clock ticks: the controller logs them through the trace; we derive from e.Trace afterwards
		status := e.Run()
		log := e.Events()
		canon := e.CanonLog()
		// cleanup of already-received results iterates a Go map: the order of consecutive cleanup calls made
		// by one goroutine is not controlled by any schedule and carries no meaning; sort such runs
		for i := 0; i < len(canon); {
			j := i
			for j < len(canon) && strings.Contains(canon[j], ": cleanup ") {
				j++
			}
			if j > i+1 {
				sort.Strings(canon[i:j])
			}
			if j == i {
				j++
			}
			i = j
		}
		trace := append([]string{}, e.Trace...)
		parked := e.Parked()
		e.Disable()
		synctest.Wait()
		var viol, key string
		fail := func(k, format string, a ...any) {
			if viol == "" {
				viol, key = fmt.Sprintf(format, a...), k
			}
		}
		var retSeq, cancelSeq int64
		cleaned := map[string]int{}
		for _, evn := range log {
			f := strings.Fields(evn.Text)
			switch f[0] {
			case "f-start":
				calls[f[1]].startSeq = evn.Seq
			case "f-end":
				calls[f[1]].endSeq = evn.Seq
			case "return":
				retSeq = evn.Seq
			case "cancel":
				cancelSeq = evn.Seq
			case "cleanup":
				cleaned[f[1]]++
			case "DUPLICATE-CALL":
				fail("called-twice", "instance %s called more than once", f[1])
			}
		}
		if status != "done" {
			fail("hang", "execution did not finish: status=%s parked=%v returned=%v log=%v", status, parked, returned, canon)
		}
		zonesAll := map[string]int{}
		for _, z := range sc.zones {
			zonesAll[z]++
		}
		zoneMode := sc.maxUnavail > 0 || sc.zoneAware
		if returned && viol == "" {
			okBefore := map[string]bool{}
			errsBefore := 0
			failedZones := map[string]bool{}
			doneInZone := map[string]int{}
			termBefore := false
			var lastErr string
			var lastErrSeq int64
			for _, cid := range sortedIDs(calls) {
				c := calls[cid]
				if c.endSeq == 0 || c.endSeq > retSeq {
					continue
				}
				doneInZone[c.zone]++
				switch c.outcome {
				case "ok":
					okBefore[c.id] = true
				case "term":
					termBefore = true
					fallthrough
				default:
					errsBefore++
					failedZones[c.zone] = true
					if c.endSeq > lastErrSeq {
						lastErrSeq, lastErr = c.endSeq, c.id
					}
				}
			}
			for _, id := range retIDs {
				if !okBefore[id] {
					fail("phantom-result", "returned result %q does not come from a call that had succeeded before the return", id)
				}
			}
			if retErr == nil && termBefore {
				// Results are processed in the order the calls return. If the successes that had returned before the
				// first terminal error did not yet satisfy the success criterion, the caller has seen the terminal error
				// first and must have returned it.
				var termSeq int64
				for _, cid := range sortedIDs(calls) {
					if c := calls[cid]; c.outcome == "term" && c.endSeq != 0 && (termSeq == 0 || c.endSeq < termSeq) {
						termSeq = c.endSeq
					}
				}
				okZ, badZ, oks := map[string]int{}, map[string]bool{}, 0
				for _, cid := range sortedIDs(calls) {
					c := calls[cid]
					if c.endSeq == 0 || c.endSeq >= termSeq {
						continue
					}
					if c.outcome == "ok" {
						oks++
						okZ[c.zone]++
					} else {
						badZ[c.zone] = true
					}
				}
				satisfied := false
				if !zoneMode {
					satisfied = oks >= n-sc.maxErrors
				} else {
					good := 0
					for z, total := range zonesAll {
						if !badZ[z] && okZ[z] == total {
							good++
						}
					}
					satisfied = good >= len(zonesAll)-sc.maxUnavail
				}
				if !satisfied {
					fail("terminal-ignored", "returned success %v although a call had returned a terminal error before the successes needed for it had all arrived", retIDs)
				}
			}
			if retErr == nil {
				if !zoneMode {
					if len(okBefore) < n-sc.maxErrors {
						fail("early-success", "returned success with %d successful results, needs %d (n=%d MaxErrors=%d)", len(okBefore), n-sc.maxErrors, n, sc.maxErrors)
					}
					if len(retIDs) < n-sc.maxErrors {
						fail("result-set", "returned only %v (n=%d MaxErrors=%d)", retIDs, n, sc.maxErrors)
					}
				} else {
					goodZones := map[string]bool{}
					for z, total := range zonesAll {
						if !failedZones[z] && doneInZone[z] == total {
							goodZones[z] = true
						}
					}
					need := len(zonesAll) - sc.maxUnavail
					if need < 0 {
						need = 0
					}
					// the returned results must be ALL instances of some set of complete failure-free zones, at least
					// `need` of them (a zone that completed while the call was already returning may be left out: its
					// results then go to cleanup, which the cleanup oracle checks)
					retZones := map[string]int{}
					for _, id := range retIDs {
						var ix int
						fmt.Sscanf(id, "i%d", &ix)
						retZones[sc.zones[ix]]++
					}
					for z, k := range retZones {
						if !goodZones[z] {
							fail("result-set", "returned results from zone %q which was not complete and failure-free at return", z)
						}
						if k != zonesAll[z] {
							fail("result-set", "returned %d of the %d results of zone %q: %v", k, zonesAll[z], z, retIDs)
						}
					}
					if len(retZones) < need {
						fail("early-success", "returned results of %d zones, needs %d", len(retZones), need)
					}
				}
			} else {
				cancelled := cancelSeq != 0 && cancelSeq < retSeq
				tooMany := (!zoneMode && errsBefore > sc.maxErrors) || (zoneMode && len(failedZones) > sc.maxUnavail)
				switch {
				case errors.Is(retErr, errCallerCancelled):
					if !cancelled {
						fail("phantom-cancel", "returned the caller's cancellation cause before any cancellation")
					}
				case termBefore || tooMany:
					// the error must be one that a call which had failed before the return produced (results are taken in the
					// order the calls returned; which of several pending failures tips the balance is not promised)
					okErr := false
					for _, cid := range sortedIDs(calls) {
						c := calls[cid]
						if c.endSeq == 0 || c.endSeq > retSeq || c.outcome == "ok" {
							continue
						}
						if strings.Contains(retErr.Error(), "failure of "+c.id) || strings.Contains(retErr.Error(), " at "+c.id) || (c.outcome == "ctx" && errors.Is(retErr, context.Canceled)) {
							okErr = true
						}
					}
					if !okErr {
						fail("foreign-error", "returned %v, which none of the calls that had failed by then produced (last failure: %s)", retErr, lastErr)
					}
				default:
					fail("early-error", "returned error %v although failures (%d, zones %v) were within tolerance and no terminal error / cancellation occurred", retErr, errsBefore, failedZones)
				}
			}
			// minimisation: at each start, how many may have been started
			if sc.minimize {
				type st struct {
					seq int64
					c   *fcall
				}
				var starts []st
				for _, cid := range sortedIDs(calls) {
					c := calls[cid]
					if c.startSeq != 0 {
						starts = append(starts, st{c.startSeq, c})
					}
				}
				sort.Slice(starts, func(i, j int) bool { return starts[i].seq < starts[j].seq })
				startedZones := map[string]bool{}
				for k, s := range starts {
					fails := 0
					fz := map[string]bool{}
					for _, cid := range sortedIDs(calls) {
						c := calls[cid]
						if c.endSeq != 0 && c.endSeq < s.seq && c.outcome != "ok" {
							fails++
							fz[c.zone] = true
						}
					}
					startedZones[s.c.zone] = true
					if !zoneMode {
						allowed := n - sc.maxErrors + fails + s.c.startStepTick
						if k+1 > allowed {
							fail("not-minimal", "call #%d (%s) started although only %d were needed (n=%d MaxErrors=%d, %d failures, %d hedge ticks so far)", k+1, s.c.id, allowed, n, sc.maxErrors, fails, s.c.startStepTick)
						}
					} else {
						need := len(zonesAll) - sc.maxUnavail
						if need < 0 {
							need = 0
						}
						allowed := need + len(fz) + s.c.startStepTick
						if len(startedZones) > allowed {
							fail("not-minimal", "zone %q started (%d zones) although only %d were needed (%d failed zones, %d hedge ticks)", s.c.zone, len(startedZones), allowed, len(fz), s.c.startStepTick)
						}
					}
				}
			}
			if status == "done" {
				ret := map[string]bool{}
				for _, id := range retIDs {
					ret[id] = true
				}
				for _, cid := range sortedIDs(calls) {
					c := calls[cid]
					if c.outcome == "ok" {
						want := 1
						if ret[c.id] {
							want = 0
						}
						if cleaned[c.id] != want {
							fail("cleanup", "successful result of %s (returned=%v) was passed to cleanup %d times, want %d", c.id, ret[c.id], cleaned[c.id], want)
						}
					}
					if !ret[c.id] && c.ctx.Err() == nil {
						fail("ctx-leak", "context of the call to %s (outcome %s) whose result is not used was not cancelled", c.id, c.outcome)
					}
					if ret[c.id] && sc.noCancelV && c.ctx.Err() != nil && cancelSeq == 0 {
						fail("ctx-cancelled", "context of the returned result %s was cancelled by the non-cancelling variant", c.id)
					}
					if ret[c.id] && !sc.noCancelV && c.ctx.Err() == nil {
						fail("ctx-live", "DoUntilQuorum returned but the context of %s is still live", c.id)
					}
				}
				for _, id := range sortedIDs(cleaned) {
					k := cleaned[id]
					if c := calls[id]; c == nil || c.outcome != "ok" {
						fail("cleanup-phantom", "cleanup called %d times for %q which is not a successful result", k, id)
					}
				}
			}
		}
		var oc []string
		for _, cid := range sortedIDs(calls) {
			c := calls[cid]
			oc = append(oc, c.id+":"+c.outcome)
		}
		sort.Strings(oc)
		sort.Strings(retIDs)
		cancel(nil)
		if leaked := sched.ShimLeaks(e.Teardown()); len(leaked) > 0 {
			fail("leak", "goroutines of the code under test are still blocked for ever after everything was cancelled/stopped: %v", leaked)
		}
		res = sched.Result{Violation: viol, Key: key, Outcome: fmt.Sprintf("ret=%v err=%v|%v|ticks=%d", retIDs, retErr != nil, oc, ticks), Trace: append(trace, canon...)}
	})
	return
}

// sortedIDs gives a deterministic iteration order (violation messages must replay identically).
func sortedIDs[V any](m map[string]V) []string {
	ids := make([]string, 0, len(m))
	for id := range m {
		ids = append(ids, id)
	}
	sort.Strings(ids)
	return ids
}

func scenarios() []scenario {
	var out []scenario
	layouts := [][]string{{""}, {"", ""}, {"", "", ""}}
	zl := [][]string{{"a"}, {"a", "b"}, {"a", "a", "b"}, {"a", "b", "c"}}
	if ev.Thorough() {
		layouts = append(layouts, []string{"", "", "", ""})
		zl = append(zl, []string{"a", "a", "b", "b"}, []string{"a", "b", "c", "c"}, []string{"a", "b", "c", "d"})
	}
	for _, l := range layouts {
		for me := 0; me < len(l); me++ { // MaxErrors >= n (quorum of zero) races natively between start and abort: excluded, see DESIGN
			for _, min := range []bool{false, true} {
				out = append(out, scenario{name: "plain", zones: l, maxErrors: me, minimize: min})
				if min && me > 0 {
					out = append(out, scenario{name: "hedge", zones: l, maxErrors: me, minimize: true, hedge: true})
				}
			}
			if me <= 1 || len(l) <= 2 {
				out = append(out, scenario{name: "cancel", zones: l, maxErrors: me, minimize: me > 0, cancel: true})
				if len(l) <= 3 && me >= 1 {
					out = append(out, scenario{name: "cancel-anytime", zones: l, maxErrors: me, minimize: false, cancel: true, cancelAny: true})
				}
				out = append(out, scenario{name: "terminal", zones: l, maxErrors: me, minimize: false, terminal: true})
			}
		}
		if len(l) > 1 {
			out = append(out, scenario{name: "nocancel-variant", zones: l, maxErrors: len(l) / 2, minimize: true, noCancelV: true})
		}
	}
	for _, l := range zl {
		nz := map[string]bool{}
		for _, z := range l {
			nz[z] = true
		}
		for mu := 0; mu < len(nz); mu++ {
			for _, min := range []bool{false, true} {
				out = append(out, scenario{name: "zones", zones: l, maxUnavail: mu, zoneAware: true, minimize: min})
				if min && mu > 0 {
					out = append(out, scenario{name: "zones-hedge", zones: l, maxUnavail: mu, zoneAware: true, minimize: true, hedge: true, sorter: true})
				}
			}
		}
		if len(nz) < 2 {
			continue
		}
		out = append(out, scenario{name: "zones-cancel", zones: l, maxUnavail: 1, zoneAware: true, minimize: true, cancel: true, sorter: true})
		out = append(out, scenario{name: "zones-nocancel-variant", zones: l, maxUnavail: 1, zoneAware: true, minimize: false, noCancelV: true})
		// a terminal error is terminal also when the call that returns it had its context cancelled (its zone failed)
		multi := false
		for _, z := range l {
			k := 0
			for _, y := range l {
				if y == z {
					k++
				}
			}
			multi = multi || k > 1
		}
		if multi && (len(l) <= 3 || ev.Thorough()) {
			out = append(out, scenario{name: "zones-terminal", zones: l, maxUnavail: 1, zoneAware: true, minimize: false, terminal: true, ctxTerm: true, cancel: true, sorter: true})
		}
	}
	return out
}

func TestC11(t *testing.T) {
	rep := ev.NewReport("C11", "dountilquorum")
	bound := 2
	if ev.Thorough() {
		bound = 3
	}
	if b := os.Getenv("VERIF_BOUND"); b != "" {
		fmt.Sscan(b, &bound)
	}
	scs := scenarios()
	rep.Bound = fmt.Sprintf("%d scenarios: replication sets of 1..3 (thorough 4) instances without zones (every MaxErrors 0..n) and in zone layouts (every MaxUnavailableZones), minimisation on/off, hedging (virtual clock, tick is an explorer choice), terminal-error predicate, caller cancellation, non-cancelling variant, fixed zone sorter; per call outcome ∈ {ok, error, terminal error, fail only after its context ends, terminal error only after its context ends}; rand.Perm / rand.Shuffle answers enumerated; all schedules with <= %d preemptions", len(scs), bound)
	rep.Rule = "stateless DFS on the real DoUntilQuorum / …WithoutSuccessfulContextCancellation; oracle from the observation log: results only from successful calls, success only when the criterion holds at return (count, or exactly the instances of complete failure-free zones), error only beyond tolerance / terminal / cancelled and equal to the deciding error, no success once a terminal error arrived before the successes that justify it, each instance called at most once, minimisation bound at every call start, every unreturned success cleaned up exactly once, contexts of unused calls cancelled; distinct_nontrivial = distinct (scenario, returned set, outcome vector, hedge ticks)"
	deadline := ev.Deadline(8 * time.Minute)
	for _, sc := range scs {
		if sc.cancelAny {
			continue // explored by TestC11SelectRace, which is built with the select seam
		}
		x := &sched.Explorer{Bound: bound, Report: rep, Deadline: deadline, Scenario: sc.String(), Run: func(c *sched.Chooser) sched.Result { return runOne(t, sc, c) }}
		if !x.ExploreOrReplay() {
			rep.NotExhaustive("deadline or violation cap in " + sc.String())
			break
		}
		rep.Add("scenarios_completed", 1)
		if x.Execs > 200 {
			rep.Sample(fmt.Sprintf("%s: %d executions, %d distinct outcomes", sc.String(), x.Execs, x.Outcomes()))
		}
	}
	if err := rep.Write(); err != nil {
		t.Fatal(err)
	}
}

// TestC11SelectRace — "caller cancellation at any point", including the point where the main loop of DoUntilQuorum is
// between two selects: the caller's context ends while a result is already waiting, so the next select finds two
// ready cases. This part is built with the vsel seam: a scheduling point at the top of the loop (otherwise the loop
// runs natively from one receive to the next and can never be caught there) and an explorer choice of the case taken.
func TestC11SelectRace(t *testing.T) {
	rep := ev.NewReport("C11", "select-race")
	bound := 2
	if ev.Thorough() {
		bound = 3
	}
	var scs []scenario
	for _, sc := range scenarios() {
		if sc.cancelAny {
			scs = append(scs, sc)
		}
	}
	var names []string
	for _, sc := range scs {
		names = append(names, sc.String())
	}
	rep.Bound = fmt.Sprintf("%d scenarios (2..3 instances without zones, MaxErrors >= 1, all requests started at once, cancellation allowed at any moment incl. while the caller is between two selects); per call outcome ∈ {ok, error, fail only after its context ends}; when both the caller's cancellation and a result are ready, both picks of the select; all schedules with <= %d preemptions: %v", len(scs), bound, names)
	rep.Rule = "same oracle as the dountilquorum part (in particular: every successful result that is not returned is cleaned up exactly once, also a result that was ready when the cancellation was noticed)"
	deadline := ev.Deadline(8 * time.Minute)
	si, sn := ev.Shard()
	for i, sc := range scs {
		if i%sn != si {
			continue
		}
		x := &sched.Explorer{Bound: bound, Report: rep, Deadline: deadline, Scenario: sc.String(), NoShard: true, Run: func(c *sched.Chooser) sched.Result { return runOne(t, sc, c) }}
		if !x.ExploreOrReplay() {
			rep.NotExhaustive("deadline or violation cap in " + sc.String())
			break
		}
		rep.Sample(fmt.Sprintf("%s: %d executions, %d distinct outcomes", sc.String(), x.Execs, x.Outcomes()))
	}
	if err := rep.Write(); err != nil {
		t.Fatal(err)
	}
}

// ---------------- multi-set variant ----------------

type mscen struct {
	name      string
	sizes     []int // instances per set
	maxErrors []int
	minimize  bool
}

func (m mscen) String() string {
	return fmt.Sprintf("multi[%s sizes=%v maxErr=%v min=%v]", m.name, m.sizes, m.maxErrors, m.minimize)
}

func runMulti(t *testing.T, sc mscen, ch *sched.Chooser) (res sched.Result) {
	synctest.Test(t, func(t *testing.T) {
		shimrand.Enumerate = true
		e := sched.NewExec(ch)
		e.MaxSteps = 4000
		ctx, cancel := context.WithCancelCause(context.Background())
		defer cancel(nil)
		var sets []ring.ReplicationSet
		setOf := map[string]int{}
		for si, n := range sc.sizes {
			s := ring.ReplicationSet{MaxErrors: sc.maxErrors[si]}
			for i := 0; i < n; i++ {
				id := fmt.Sprintf("s%di%d", si, i)
				setOf[id] = si
				s.Instances = append(s.Instances, ring.InstanceDesc{Id: id, Addr: id})
			}
			sets = append(sets, s)
		}
		cfg := ring.DoUntilQuorumConfig{MinimizeRequests: sc.minimize}
		type call struct {
			outcome string
			endSeq  int64
			ctx     context.Context
		}
		calls := map[string]*call{}
		dup := ""
		f := func(fctx context.Context, in *ring.InstanceDesc, done context.CancelCauseFunc) (string, error) {
			sched.SetName("f:" + in.Id)
			sched.Yield("f-enter")
			if _, ok := calls[in.Id]; ok {
				dup = in.Id
			}
			c := &call{ctx: fctx}
			calls[in.Id] = c
			k := sched.Choose("outcome", 2, false)
			if k == 0 {
				c.outcome = "ok"
				sched.Obs("f-end " + in.Id + " ok")
				// the caller keeps the stream open: it calls done() later (at tear-down)
				return in.Id, nil
			}
			c.outcome = "err"
			sched.Obs("f-end " + in.Id + " err")
			done(errors.New("failed"))
			return "", fmt.Errorf("failure of %s", in.Id)
		}
		cleaned := map[string]int{}
		cleanup := func(r string) { cleaned[r]++; sched.Obs("cleanup " + r) }
		var out []string
		var retErr error
		returned := false
		e.Enable()
		e.Go("caller", func() {
			out, retErr = ring.DoMultiUntilQuorumWithoutSuccessfulContextCancellation(ctx, sets, cfg, f, cleanup)
			returned = true
			sched.Obs(fmt.Sprintf("return %v err=%v", out, retErr))
		})
		status := e.Run()
		log := e.Events()
		canon := e.CanonLog()
		for i := 0; i < len(canon); {
			j := i
			for j < len(canon) && strings.Contains(canon[j], ": cleanup ") {
				j++
			}
			if j > i+1 {
				sort.Strings(canon[i:j])
			}
			if j == i {
				j++
			}
			i = j
		}
		trace := append([]string{}, e.Trace...)
		parked := e.Parked()
		e.Disable()
		synctest.Wait()
		var viol, key string
		fail := func(k, format string, a ...any) {
			if viol == "" {
				viol, key = fmt.Sprintf(format, a...), k
			}
		}
		if dup != "" {
			fail("called-twice", "instance %s called more than once", dup)
		}
		if status != "done" || !returned {
			fail("hang", "multi-set call did not finish: status=%s parked=%v log=%v", status, parked, canon)
		}
		var retSeq int64
		for _, evn := range log {
			if strings.HasPrefix(evn.Text, "return ") {
				retSeq = evn.Seq
			}
			if strings.HasPrefix(evn.Text, "f-end ") {
				calls[strings.Fields(evn.Text)[1]].endSeq = evn.Seq
			}
		}
		if returned && viol == "" {
			okBySet := make([]int, len(sets))
			errBySet := make([]int, len(sets))
			okBefore := map[string]bool{}
			for _, id := range sortedIDs(calls) {
				c := calls[id]
				if c.endSeq == 0 || c.endSeq > retSeq {
					continue
				}
				if c.outcome == "ok" {
					okBySet[setOf[id]]++
					okBefore[id] = true
				} else {
					errBySet[setOf[id]]++
				}
			}
			for _, id := range out {
				if !okBefore[id] {
					fail("phantom-result", "returned %q which had not succeeded before the return", id)
				}
			}
			if retErr == nil {
				perSet := make([]int, len(sets))
				for _, id := range out {
					perSet[setOf[id]]++
				}
				for si := range sets {
					if need := sc.sizes[si] - sc.maxErrors[si]; perSet[si] < need {
						fail("early-success", "success returned with %d results of set %d, needs %d (returned %v)", perSet[si], si, need, out)
					}
				}
			} else {
				anyFailed := false
				for si := range sets {
					if errBySet[si] > sc.maxErrors[si] {
						anyFailed = true
					}
				}
				if !anyFailed {
					fail("early-error", "error %v returned although no set was beyond its tolerance (errors per set %v)", retErr, errBySet)
				}
			}
			ret := map[string]bool{}
			for _, id := range out {
				ret[id] = true
			}
			for _, id := range sortedIDs(calls) {
				c := calls[id]
				if c.outcome == "ok" {
					want := 1
					if ret[id] {
						want = 0
					}
					if cleaned[id] != want {
						fail("cleanup", "successful result of %s (returned=%v) cleaned up %d times, want %d", id, ret[id], cleaned[id], want)
					}
					if !ret[id] && c.ctx.Err() == nil {
						fail("ctx-leak", "context of the unused successful call to %s not cancelled", id)
					}
					if ret[id] && c.ctx.Err() != nil {
						fail("ctx-cancelled", "context of the returned stream %s was cancelled", id)
					}
				}
			}
		}
		var oc []string
		for _, id := range sortedIDs(calls) {
			c := calls[id]
			oc = append(oc, id+":"+c.outcome)
		}
		sort.Strings(oc)
		sort.Strings(out)
		cancel(nil)
		if leaked := sched.ShimLeaks(e.Teardown()); len(leaked) > 0 {
			fail("leak", "goroutines of the code under test are still blocked for ever after everything was cancelled/stopped: %v", leaked)
		}
		res = sched.Result{Violation: viol, Key: key, Outcome: fmt.Sprintf("ret=%v err=%v|%v", out, retErr != nil, oc), Trace: append(trace, canon...)}
	})
	return
}

func TestC11Multi(t *testing.T) {
	rep := ev.NewReport("C11", "multi-set")
	bound := 2
	if ev.Thorough() {
		bound = 3
	}
	scs := []mscen{
		{"2x2-strict", []int{2, 2}, []int{0, 0}, false},
		{"2x2-tolerant", []int{2, 2}, []int{1, 1}, false},
		{"1+2", []int{1, 2}, []int{0, 1}, false},
	}
	if ev.Thorough() {
		scs = append(scs, mscen{"3 sets", []int{1, 2, 1}, []int{0, 1, 0}, false}, mscen{"2x3", []int{3, 3}, []int{1, 1}, false})
	}
	rep.Bound = fmt.Sprintf("%d scenarios of DoMultiUntilQuorumWithoutSuccessfulContextCancellation over 2 (thorough 3) non-zone-aware sets of 1..3 instances with tolerance 0/1 (minimisation off: with it the unnamed worker goroutines draw the release permutation before any harness callback can name them, and their identity is not reproducible); per call outcome ok/error; all schedules with <= %d preemptions (hooks: the result mutex, sync.Once and WaitGroup of the multi-set driver, the trackers' atomics, every callback; the in-flight tracker's mutex stays native)", len(scs), bound)
	rep.Rule = "success only with a quorum of results from EVERY set, results only from calls that succeeded, error only when some set is beyond tolerance, each instance called at most once, every unreturned success cleaned up exactly once and its context cancelled, contexts of returned streams left open, the call always returns; distinct_nontrivial = distinct (scenario, returned set, outcome vector)"
	deadline := ev.Deadline(6 * time.Minute)
	for _, sc := range scs {
		x := &sched.Explorer{Bound: bound, Report: rep, Deadline: deadline, Scenario: sc.String(), Run: func(c *sched.Chooser) sched.Result { return runMulti(t, sc, c) }}
		if !x.ExploreOrReplay() {
			rep.NotExhaustive("deadline or violation cap in " + sc.String())
			break
		}
		rep.Sample(fmt.Sprintf("%s: %d executions, %d distinct outcomes", sc.String(), x.Execs, x.Outcomes()))
	}
	if err := rep.Write(); err != nil {
		t.Fatal(err)
	}
}
