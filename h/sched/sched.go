// Package sched is the controlled cooperative scheduler of engine E2.
//
// Code under test is compiled against shim packages (verif/shim/...) whose operations call
// Yield before every step that can order two goroutines. While the scheduler is enabled, a
// yielding goroutine parks on a private channel (a durable block for testing/synctest) and the
// controller — the bubble's root goroutine — repeatedly waits for quiescence (synctest.Wait),
// computes the enabled entries in a canonical order, asks the Chooser which one to release and
// releases exactly one. With the scheduler disabled every hook is a no-op and the shims behave
// like the primitives they replace (used for set-up, tear-down and the free-running -race pass).
package sched

import (
	"fmt"
	"runtime"
	"sort"
	"strings"
	"sync"
	"sync/atomic"
	"testing/synctest"
	"time"
)

var (
	mu  sync.Mutex
	on  atomic.Bool
	cur *Exec
)

// On reports whether hooks currently park.
func On() bool { return on.Load() }

type waiter struct {
	gid    uint64
	name   string
	label  string
	cond   func() bool
	alts   int  // number of answers (>=1)
	costly bool // a non-default answer costs one deviation
	ch     chan int
	order  int
}

// Event is one observation logged by a thread.
type Event struct {
	Step   int
	Seq    int64
	Thread string
	Text   string
}

// Exec is the state of one execution (one bubble).
type Exec struct {
	ch        *Chooser
	parked    []*waiter
	names     map[uint64]string
	anon      int
	running   string
	step      int
	seq       int64
	live      int
	order     int
	Log       []Event
	Trace     []string // schedule as chosen: "name/label[#answer]"
	Status    string   // done | stuck | horizon
	Quantum   time.Duration
	ClockOn   func() bool // when non-nil and true, "advance the clock by one quantum" is an enabled entry
	ClockFree bool        // clock entry costs no deviation
	OnClock   func()      // called by the controller each time it advances the clock by choice
	MaxSteps  int
	MaxIdle   int // max consecutive idle clock advances when nothing is enabled
	// DelayBounded switches the cost model from preemption bounding (switching away from a runnable
	// thread costs 1, switching at a blocking point is free) to delay bounding (Emmi, Qadeer, Rakamaric,
	// POPL 2011): every departure from the deterministic default order costs 1, also at blocking points.
	DelayBounded bool
	idleTicks    int
	Leaked       []string // set by Teardown: hook points of goroutines that would have blocked for ever
}

// NewExec installs a fresh execution state. Call inside the bubble, before Enable.
func NewExec(ch *Chooser) *Exec {
	e := &Exec{ch: ch, names: map[uint64]string{}, Quantum: time.Second, MaxSteps: 5000, MaxIdle: 0}
	mu.Lock()
	cur = e
	mu.Unlock()
	return e
}

func (e *Exec) Enable()  { on.Store(true) }
func (e *Exec) Disable() { e.disable() }

func (e *Exec) disable() {
	on.Store(false)
	mu.Lock()
	ws := e.parked
	e.parked = nil
	mu.Unlock()
	for _, w := range ws {
		w.ch <- 0
	}
}

// Teardown disables the scheduler and lets every goroutine run freely; call before the bubble ends.
//
// A goroutine parked on a condition that is false now would, once the hooks are off, block natively for
// ever and the bubble could never end (synctest panics: "blocked goroutines remain"). Such goroutines are
// ended here with runtime.Goexit (their deferred calls run) and their hook points are returned: a
// harness whose oracle promises "nothing is left behind" must treat a non-empty result as a leak.
func (e *Exec) Teardown() (leaked []string) {
	on.Store(false)
	var blocked []*waiter
	for {
		synctest.Wait()
		mu.Lock()
		ws := append(blocked, e.parked...)
		e.parked = nil
		mu.Unlock()
		blocked = nil
		released := 0
		for _, w := range ws {
			if w.cond == nil || w.cond() {
				released++
				w.ch <- 0
			} else {
				blocked = append(blocked, w)
			}
		}
		if released == 0 {
			break
		}
	}
	// every other goroutine of the bubble is durably blocked and these conditions are still false
	for _, w := range blocked {
		leaked = append(leaked, w.name+"/"+w.label)
		w.ch <- -1
	}
	sort.Strings(leaked)
	e.Leaked = leaked
	synctest.Wait()
	mu.Lock()
	if cur == e {
		cur = nil
	}
	mu.Unlock()
	return leaked
}

// ShimLeaks keeps, of what Teardown returned, the goroutines that were blocked inside the code under test
// (at a lock, wait group or condition variable of a shimmed package), dropping harness threads parked at
// a harness window that never opened.
func ShimLeaks(leaked []string) (out []string) {
	for _, l := range leaked {
		for _, sfx := range []string{"/Mutex.Lock", "/RWMutex.Lock", "/RWMutex.RLock", "/WaitGroup.Wait", "/Cond.Wait"} {
			if strings.HasSuffix(l, sfx) {
				out = append(out, l)
			}
		}
	}
	return
}

func goid() uint64 {
	var buf [40]byte
	n := runtime.Stack(buf[:], false)
	// "goroutine 123 ["
	var id uint64
	for i := len("goroutine "); i < n && buf[i] >= '0' && buf[i] <= '9'; i++ {
		id = id*10 + uint64(buf[i]-'0')
	}
	return id
}

// SetName names the calling goroutine (harness callbacks call it on entry).
func SetName(name string) {
	if !on.Load() {
		return
	}
	g := goid()
	mu.Lock()
	if cur != nil {
		cur.names[g] = name
	}
	mu.Unlock()
}

// Yield is a plain scheduling point.
func Yield(label string) { park(label, nil, 1, false) }

// YieldUntil parks until cond holds and the controller releases the goroutine. With the scheduler
// disabled it returns immediately (the caller falls back to real blocking).
func YieldUntil(label string, cond func() bool) { park(label, cond, 1, false) }

// Choose is an environment choice point: returns an answer in [0,n). With the scheduler disabled
// it returns 0.
func Choose(label string, n int, costly bool) int {
	if n <= 1 {
		park(label, nil, 1, false)
		return 0
	}
	return park(label, nil, n, costly)
}

func park(label string, cond func() bool, alts int, costly bool) int {
	if !on.Load() {
		return 0
	}
	w := &waiter{gid: goid(), label: label, cond: cond, alts: alts, costly: costly, ch: make(chan int, 1)}
	mu.Lock()
	e := cur
	if e == nil || !on.Load() {
		mu.Unlock()
		return 0
	}
	w.name = e.names[w.gid]
	e.order++
	w.order = e.order
	e.parked = append(e.parked, w)
	mu.Unlock()
	v := <-w.ch
	if v < 0 {
		runtime.Goexit() // Teardown: this goroutine would block for ever (see there)
	}
	return v
}

// Go starts a named harness thread. It parks at its start before running fn.
func (e *Exec) Go(name string, fn func()) {
	mu.Lock()
	e.live++
	mu.Unlock()
	go func() {
		g := goid()
		mu.Lock()
		e.names[g] = name
		mu.Unlock()
		Yield("start")
		defer func() {
			mu.Lock()
			e.live--
			mu.Unlock()
		}()
		fn()
	}()
}

// Obs logs an observation of the calling thread (stamped with the controller step and a global sequence).
func Obs(text string) {
	mu.Lock()
	e := cur
	if e != nil {
		e.seq++
		name := e.names[goid()]
		e.Log = append(e.Log, Event{Step: e.step, Seq: e.seq, Thread: name, Text: text})
	}
	mu.Unlock()
}

// ObsAs logs an observation under an explicit thread name (for controller-side notes).
func (e *Exec) ObsAs(thread, text string) {
	mu.Lock()
	e.seq++
	e.Log = append(e.Log, Event{Step: e.step, Seq: e.seq, Thread: thread, Text: text})
	mu.Unlock()
}

type entry struct {
	w      *waiter // nil = clock
	answer int
	cost   int
}

func (e *Exec) entries() []entry {
	mu.Lock()
	defer mu.Unlock()
	// name anonymous goroutines in creation (goroutine id) order
	var anon []*waiter
	for _, w := range e.parked {
		if w.name == "" {
			if n, ok := e.names[w.gid]; ok {
				w.name = n
			} else {
				anon = append(anon, w)
			}
		}
	}
	sort.Slice(anon, func(i, j int) bool { return anon[i].gid < anon[j].gid })
	for _, w := range anon {
		if n, ok := e.names[w.gid]; ok {
			w.name = n
			continue
		}
		e.anon++
		w.name = fmt.Sprintf("~g%d", e.anon)
		e.names[w.gid] = w.name
	}
	var en []*waiter
	for _, w := range e.parked {
		if w.cond == nil || w.cond() {
			en = append(en, w)
		}
	}
	sort.Slice(en, func(i, j int) bool {
		a, b := en[i], en[j]
		ra, rb := a.name == e.running, b.name == e.running
		if ra != rb {
			return ra
		}
		if a.name != b.name {
			return a.name < b.name
		}
		if a.label != b.label {
			return a.label < b.label
		}
		return a.gid < b.gid
	})
	runningEnabled := len(en) > 0 && en[0].name == e.running
	var out []entry
	for _, w := range en {
		for a := 0; a < w.alts; a++ {
			c := 0
			if runningEnabled && w.name != e.running {
				c++
			}
			if e.DelayBounded && w != en[0] {
				c = 1
			}
			if a > 0 && w.costly {
				c++
			}
			out = append(out, entry{w, a, c})
		}
	}
	if e.ClockOn != nil && e.ClockOn() {
		c := 0
		if len(out) > 0 && !e.ClockFree {
			c = 1
		}
		out = append(out, entry{nil, 0, c})
	}
	return out
}

// Run is the controller loop. It returns when every harness thread has finished ("done"), when
// nothing can run ("stuck") or at the step horizon ("horizon").
func (e *Exec) Run() string {
	for {
		e.step++
		if e.step > e.MaxSteps {
			break
		}
		synctest.Wait()
		en := e.entries()
		if len(en) == 0 {
			mu.Lock()
			live := e.live
			mu.Unlock()
			if live == 0 {
				e.Status = "done"
				return e.Status
			}
			if e.idleTicks < e.MaxIdle {
				e.idleTicks++
				e.Trace = append(e.Trace, "idle-tick")
				time.Sleep(e.Quantum)
				continue
			}
			e.Status = "stuck"
			return e.Status
		}
		costs := make([]int, len(en))
		for i := range en {
			costs[i] = en[i].cost
		}
		k := e.ch.choose(costs, func() string { return e.describe(en) })
		pick := en[k]
		if pick.w == nil {
			e.Trace = append(e.Trace, "clock")
			e.running = ""
			if e.OnClock != nil {
				e.OnClock()
			}
			time.Sleep(e.Quantum)
			continue
		}
		e.idleTicks = 0
		mu.Lock()
		for i, w := range e.parked {
			if w == pick.w {
				e.parked = append(e.parked[:i], e.parked[i+1:]...)
				break
			}
		}
		mu.Unlock()
		e.running = pick.w.name
		if pick.w.alts > 1 {
			e.Trace = append(e.Trace, fmt.Sprintf("%s/%s#%d", pick.w.name, pick.w.label, pick.answer))
		} else {
			e.Trace = append(e.Trace, pick.w.name+"/"+pick.w.label)
		}
		pick.w.ch <- pick.answer
	}
	e.Status = "horizon"
	return e.Status
}

func (e *Exec) describe(en []entry) string {
	var s []string
	for _, x := range en {
		if x.w == nil {
			s = append(s, "clock")
		} else {
			s = append(s, fmt.Sprintf("%s/%s#%d", x.w.name, x.w.label, x.answer))
		}
	}
	return strings.Join(s, " ")
}

// ParkedInCond reports whether a thread of that name is parked at a hook. Only for use inside a
// YieldUntil condition (conditions are evaluated by the controller at quiescence, holding the lock).
func (e *Exec) ParkedInCond(name string) bool {
	for _, w := range e.parked {
		if w.name == name || e.names[w.gid] == name {
			return true
		}
	}
	return false
}

// Live returns the number of harness threads that have not finished.
func (e *Exec) Live() int { mu.Lock(); defer mu.Unlock(); return e.live }

// Parked describes the goroutines still parked (for stuck reports).
func (e *Exec) Parked() []string {
	mu.Lock()
	defer mu.Unlock()
	var out []string
	for _, w := range e.parked {
		out = append(out, w.name+"/"+w.label)
	}
	sort.Strings(out)
	return out
}

// CanonLog returns the observation log in canonical order: by controller step, then thread,
// then per-thread order (events of different goroutines inside one step are unordered natively).
func (e *Exec) CanonLog() []string {
	mu.Lock()
	evs := append([]Event(nil), e.Log...)
	mu.Unlock()
	sort.SliceStable(evs, func(i, j int) bool {
		if evs[i].Step != evs[j].Step {
			return evs[i].Step < evs[j].Step
		}
		if evs[i].Thread != evs[j].Thread {
			return evs[i].Thread < evs[j].Thread
		}
		if evs[i].Thread == "" && evs[i].Text != evs[j].Text {
			// unnamed goroutines (never parked) that log in the same step are unordered natively
			return evs[i].Text < evs[j].Text
		}
		return evs[i].Seq < evs[j].Seq
	})
	out := make([]string, len(evs))
	for i, ev := range evs {
		out[i] = fmt.Sprintf("%d %s: %s", ev.Step, ev.Thread, ev.Text)
	}
	return out
}

// Events returns the log in global sequence order.
func (e *Exec) Events() []Event {
	mu.Lock()
	defer mu.Unlock()
	return append([]Event(nil), e.Log...)
}
