// C12 — shuffle shards are deterministic, right-sized, stable; look-back is a superset.
// Engine E1: every ring of a small universe × identifiers × sizes, plus every history of <=3
// membership events for the look-back clause; the same for partition rings.
package c12

import (
	"fmt"
	"sort"
	"strings"
	"testing"
	"time"

	"github.com/go-kit/log"

	"github.com/grafana/dskit/ring"

	"verif/enum"
	"verif/ev"
	"verif/pre"
)

const M = ^uint32(0)

var tokAlpha = []uint32{0, 1, 1 << 29, 1<<29 + 1, 1 << 30, 3 << 29, 1 << 31, 1<<31 + 1, 5 << 29, 3 << 30, 7 << 29, M}

var layouts = [][]int{
	{0, 1, 2, 3, 4, 5, 6, 7, 8, 9, 10, 11},
	{11, 3, 7, 0, 9, 5, 1, 10, 4, 8, 2, 6},
	{5, 10, 2, 8, 0, 7, 11, 3, 9, 1, 6, 4},
	{6, 0, 9, 4, 11, 2, 8, 5, 1, 7, 3, 10},
}

var idents = []string{"tenant-a", "tenant-b", "t1", "t2", "t3", "user-17", "user-42", "x", "yy", "zzz", "alpha", "beta", "gamma", "delta", "0", "anonymous"}

type inst struct {
	id     string
	zone   string
	ro     bool
	roTS   int64
	regTS  int64
	tokens []uint32
}

type rcase struct {
	insts []inst
	za    bool
}

func (c rcase) String() string {
	var sb strings.Builder
	fmt.Fprintf(&sb, "za=%v ", c.za)
	for _, i := range c.insts {
		fmt.Fprintf(&sb, "%s[z=%q ro=%v reg=%d roTS=%d t=%v] ", i.id, i.zone, i.ro, i.regTS, i.roTS, i.tokens)
	}
	return sb.String()
}

func (c rcase) desc(now time.Time) *ring.Desc {
	d := ring.NewDesc()
	for _, i := range c.insts {
		d.Ingesters[i.id] = ring.InstanceDesc{Id: i.id, Addr: i.id, Zone: i.zone, State: ring.ACTIVE, Timestamp: now.Unix(), Tokens: append([]uint32(nil), i.tokens...),
			RegisteredTimestamp: i.regTS, ReadOnly: i.ro, ReadOnlyUpdatedTimestamp: i.roTS}
	}
	return d
}

func newRing(c rcase, now time.Time, cache bool) *ring.Ring {
	cfg := ring.Config{HeartbeatTimeout: time.Hour, ReplicationFactor: 1, ZoneAwarenessEnabled: c.za, SubringCacheDisabled: !cache}
	r, err := ring.NewWithStoreClientAndStrategy(cfg, "c12", "k", nil, ring.NewDefaultReplicationStrategy(), nil, log.NewNopLogger())
	if err != nil {
		panic(err)
	}
	pre.Install(r, c.desc(now), now) // on top of earlier versions of itself (see package pre)
	return r
}

func members(rr ring.ReadRing) []string {
	rs, err := rr.GetAllHealthy(ring.Reporting)
	if err != nil {
		return nil
	}
	var out []string
	for _, i := range rs.Instances {
		out = append(out, i.Id)
	}
	sort.Strings(out)
	return out
}

func setOf(s []string) map[string]bool {
	m := map[string]bool{}
	for _, x := range s {
		m[x] = true
	}
	return m
}

func diff(a, b []string) (added, removed int) {
	sa, sb := setOf(a), setOf(b)
	for x := range sb {
		if !sa[x] {
			added++
		}
	}
	for x := range sa {
		if !sb[x] {
			removed++
		}
	}
	return
}

func rgs(n, maxBlocks int) [][]int {
	var out [][]int
	cur := make([]int, n)
	var rec func(i, used int)
	rec = func(i, used int) {
		if i == n {
			out = append(out, append([]int(nil), cur...))
			return
		}
		for z := 0; z <= used && z < maxBlocks; z++ {
			cur[i] = z
			nu := used
			if z == used {
				nu++
			}
			rec(i+1, nu)
		}
	}
	rec(0, 0)
	return out
}

func expectSize(c rcase, size int) (total int, perZone map[string]int) {
	perZone = map[string]int{}
	elig := map[string]int{}
	zones := map[string]bool{}
	for _, i := range c.insts {
		z := i.zone
		if !c.za {
			z = ""
		}
		zones[z] = true
		if !i.ro {
			elig[z]++
		}
	}
	if size <= 0 {
		for z, e := range elig {
			perZone[z] = e
			total += e
		}
		return
	}
	q := size
	if c.za {
		q = (size + len(zones) - 1) / len(zones)
	}
	for z := range zones {
		k := q
		if elig[z] < k {
			k = elig[z]
		}
		perZone[z] = k
		total += k
	}
	return
}

func TestC12Instances(t *testing.T) {
	rep := ev.NewReport("C12", "instance-shards")
	maxN := 5
	if ev.Thorough() {
		maxN = 6
	}
	rep.Bound = fmt.Sprintf("rings of 1..%d instances with 2 tokens each from a 12-value alphabet spread over the circle (incl. 0, 1 and 2^32-1) in 4 placements; zone-awareness off (no zone labels, and labels alternating over 2 / 3 zones) and on (every zone assignment up to renaming, <=3 zones); read-only flags: none or any single instance (switched long ago, in the second of the query, or 2 s ahead of it); %d identifiers; sizes 0..n+2; every single-instance removal (keeping the zone set) and every single read-only toggle", maxN, len(idents))
	rep.Rule = "real Ring.ShuffleShard: (1) same answer from a second fresh client and from the cached path, (2) per zone min(ceil(size/zones), eligible) members (all writable ones for size<=0), (3) no read-only member, (4) shard(size) ⊆ shard(size+zones), (5) removing one instance or toggling one read-only flag adds <=1 and removes <=1 member; distinct_nontrivial = distinct (ring, identifier) pairs whose shard is a proper subset of the writable instances"
	deadline := ev.Deadline(8 * time.Minute)
	enum.Frozen(t, func() {
		now := time.Now()
		for n := 1; n <= maxN; n++ {
			type cfg struct {
				za    bool
				zones []int
			}
			cfgs := []cfg{{false, make([]int, n)}}
			for _, z := range rgs(n, 3) {
				cfgs = append(cfgs, cfg{true, z})
			}
			// zone-awareness off on instances that DO carry zone labels (a zone-unaware ring over a zoned fleet): labels
			// alternate a,b / a,b,c; the labels must not matter
			for _, k := range []int{2, 3} {
				z := make([]int, n)
				for i := range z {
					z[i] = i%k + 1 // 1-based: 0 means "no label"
				}
				cfgs = append(cfgs, cfg{false, z})
			}
			// when the read-only switch happened: long ago | in the very second of the query | two seconds "ahead" (clock skew):
			// a plain shard excludes a read-only instance whatever that time is
			roWhen := []int64{-5000, 0, 2}
			total := len(cfgs) * (n + 1) * len(layouts) * len(roWhen)
			ok := enum.Par(total, deadline, func() bool { return rep.NumViolations() >= 10 }, func(ix int) {
				roAt := now.Unix() + roWhen[ix%len(roWhen)]
				ix /= len(roWhen)
				cf := cfgs[ix%len(cfgs)]
				roIdx := ix / len(cfgs) % (n + 1) // n = nobody read-only
				lay := layouts[ix/len(cfgs)/(n+1)]
				c := rcase{za: cf.za}
				for i := 0; i < n; i++ {
					z := ""
					if cf.za {
						z = string(rune('a' + cf.zones[i]))
					} else if cf.zones[i] > 0 {
						z = string(rune('a' + cf.zones[i] - 1))
					}
					in := inst{id: fmt.Sprintf("i%d", i), zone: z, regTS: now.Unix() - 10000, tokens: []uint32{tokAlpha[lay[i]], tokAlpha[lay[i+6]]}}
					if i == roIdx {
						in.ro, in.roTS = true, roAt
					}
					sort.Slice(in.tokens, func(a, b int) bool { return in.tokens[a] < in.tokens[b] })
					c.insts = append(c.insts, in)
				}
				rep.State(1)
				r := newRing(c, now, true)
				r2 := newRing(c, now, false)
				nz := 1
				if c.za {
					zs := map[string]bool{}
					for _, i := range c.insts {
						zs[i.zone] = true
					}
					nz = len(zs)
				}
				// neighbours for the stability clause
				type nb struct {
					what string
					c    rcase
				}
				var nbs []nb
				for k := 0; k < n; k++ {
					if n > 1 {
						c2 := rcase{za: c.za}
						zs := map[string]int{}
						for _, i := range c.insts {
							zs[i.zone]++
						}
						if zs[c.insts[k].zone] > 1 || !c.za {
							c2.insts = append(append([]inst(nil), c.insts[:k]...), c.insts[k+1:]...)
							nbs = append(nbs, nb{"removing " + c.insts[k].id, c2})
						}
					}
					c3 := rcase{za: c.za, insts: append([]inst(nil), c.insts...)}
					c3.insts[k].ro = !c3.insts[k].ro
					c3.insts[k].roTS = now.Unix() - 5000
					nbs = append(nbs, nb{"toggling read-only of " + c.insts[k].id, c3})
				}
				nbRings := make([]*ring.Ring, len(nbs))
				for k := range nbs {
					nbRings[k] = newRing(nbs[k].c, now, false)
				}
				roSet := map[string]bool{}
				for _, i := range c.insts {
					if i.ro {
						roSet[i.id] = true
					}
				}
				viol := func(kind, what string) {
					rep.Violate("shard:"+kind+":"+c.String(), fmt.Sprintf("ring %s: %s", c.String(), what), map[string]any{"n": n, "ix": ix})
				}
				for _, id := range idents {
					var prev []string
					shards := map[int][]string{}
					for size := 0; size <= n+2; size++ {
						m := members(r.ShuffleShard(id, size))
						shards[size] = m
						rep.Eval(1)
						rep.Trans(1)
						if m2 := members(r2.ShuffleShard(id, size)); fmt.Sprint(m2) != fmt.Sprint(m) {
							viol("determinism", fmt.Sprintf("ShuffleShard(%q,%d) = %v on one client, %v on a fresh one", id, size, m, m2))
						}
						if m3 := members(r.ShuffleShard(id, size)); fmt.Sprint(m3) != fmt.Sprint(m) {
							viol("cache", fmt.Sprintf("ShuffleShard(%q,%d) = %v, then %v from the cache", id, size, m, m3))
						}
						wantTotal, wantZone := expectSize(c, size)
						gotZone := map[string]int{}
						for _, x := range m {
							if roSet[x] {
								viol("read-only", fmt.Sprintf("ShuffleShard(%q,%d) contains read-only instance %s: %v", id, size, x, m))
							}
							for _, i := range c.insts {
								if i.id == x {
									z := i.zone
									if !c.za {
										z = ""
									}
									gotZone[z]++
								}
							}
						}
						if len(m) != wantTotal || fmt.Sprint(gotZone) != fmt.Sprint(nonZero(wantZone)) {
							viol("size", fmt.Sprintf("ShuffleShard(%q,%d) = %v (per zone %v), want %d members (per zone %v)", id, size, m, gotZone, wantTotal, nonZero(wantZone)))
						}
						if len(m) < len(c.insts)-len(roSet) {
							rep.Distinct(fmt.Sprintf("%d/%d/%s", n, ix, id))
						}
						_ = prev
						prev = m
					}
					for size := 1; size+nz <= n+2; size++ {
						small, bigger := setOf(shards[size]), setOf(shards[size+nz])
						for x := range small {
							if !bigger[x] {
								viol("containment", fmt.Sprintf("ShuffleShard(%q,%d) = %v is not contained in ShuffleShard(%q,%d) = %v", id, size, shards[size], id, size+nz, shards[size+nz]))
							}
						}
					}
					for k, nbr := range nbs {
						for size := 1; size <= n+1; size++ {
							m2 := members(nbRings[k].ShuffleShard(id, size))
							rep.Eval(1)
							a, rm := diff(shards[size], m2)
							if a > 1 || rm > 1 {
								viol("stability", fmt.Sprintf("%s changes ShuffleShard(%q,%d) from %v to %v (+%d -%d)", nbr.what, id, size, shards[size], m2, a, rm))
							}
						}
					}
				}
				if ix%(total/3+1) == 2 {
					rep.Sample(c.String())
				}
			})
			if !ok {
				rep.NotExhaustive("deadline or violation cap")
				break
			}
		}
	})
	rep.Trace(rep.Transitions)
	if err := rep.Write(); err != nil {
		t.Fatal(err)
	}
}

func nonZero(m map[string]int) map[string]int {
	o := map[string]int{}
	for k, v := range m {
		if v != 0 {
			o[k] = v
		}
	}
	return o
}

// ---- look-back over histories ----

type hev struct {
	kind string // join leave ro-on ro-off
	who  int    // index into the base instances (join: the spare instance)
}

func (e hev) String() string { return fmt.Sprintf("%s(i%d)", e.kind, e.who) }

func TestC12Lookback(t *testing.T) {
	rep := ev.NewReport("C12", "instance-lookback")
	rep.Bound = "base rings of 4 registered-long-ago instances (+1 spare that may join), zone-awareness off and on (2 zones), 4 token placements; every history of <=3 events from {join spare, leave i, read-only on i, read-only off i} at seconds 100, 200, 300; identifiers × sizes 1..3; query times T = last event + {10, 60, 250} s, windows W ∈ {30, 120, 1000} s"
	rep.Rule = "plain ShuffleShard is recorded on the ring in force at every moment; ShuffleShardWithLookback(id,size,W,T) on the final ring must contain every still-registered instance that was in a recorded plain shard of that size at some instant of [T-W, T]; two caching clients with the final content, asked all 9 (T,W) combinations in ascending and in descending order of the window start, must answer like the cache-less one; distinct_nontrivial = (history, identifier, size, T, W) with an obligation beyond the current plain shard"
	deadline := ev.Deadline(8 * time.Minute)
	kinds := []string{"join", "leave", "ro-on", "ro-off"}
	var alphabet []hev
	alphabet = append(alphabet, hev{"join", 4})
	for _, k := range kinds[1:] {
		for i := 0; i < 4; i++ {
			alphabet = append(alphabet, hev{k, i})
		}
	}
	var hists [][]hev
	var gen func(cur []hev)
	gen = func(cur []hev) {
		hists = append(hists, append([]hev(nil), cur...))
		if len(cur) == 3 {
			return
		}
		for _, e := range alphabet {
			gen(append(cur, e))
		}
	}
	gen(nil)
	enum.Frozen(t, func() {
		base := time.Now()
		b := base.Unix()
		total := len(hists) * len(layouts) * 3 // zone-unaware without labels | zone-aware | zone-unaware over labelled instances
		ok := enum.Par(total, deadline, func() bool { return rep.NumViolations() >= 10 }, func(ix int) {
			h := hists[ix%len(hists)]
			lay := layouts[ix/len(hists)%len(layouts)]
			za := ix/len(hists)/len(layouts) == 1
			labelled := ix/len(hists)/len(layouts) == 2
			mk := func(i int, reg int64) inst {
				z := ""
				if za || labelled {
					z = string(rune('a' + i%2))
				}
				in := inst{id: fmt.Sprintf("i%d", i), zone: z, regTS: reg, tokens: []uint32{tokAlpha[lay[i]], tokAlpha[lay[i+6]]}}
				sort.Slice(in.tokens, func(a, c int) bool { return in.tokens[a] < in.tokens[c] })
				return in
			}
			cur := rcase{za: za}
			for i := 0; i < 4; i++ {
				cur.insts = append(cur.insts, mk(i, b-100000))
			}
			type epoch struct {
				from int64
				c    rcase
			}
			epochs := []epoch{{b - 100000, cur}}
			valid := true
			for k, e := range h {
				at := b + int64(100*(k+1))
				nxt := rcase{za: za, insts: append([]inst(nil), cur.insts...)}
				find := func(id string) int {
					for i, in := range nxt.insts {
						if in.id == id {
							return i
						}
					}
					return -1
				}
				p := find(fmt.Sprintf("i%d", e.who))
				switch e.kind {
				case "join":
					if p >= 0 {
						valid = false
					} else {
						nxt.insts = append(nxt.insts, mk(4, at))
					}
				case "leave":
					if p < 0 || len(nxt.insts) <= 2 {
						valid = false
					} else {
						nxt.insts = append(nxt.insts[:p], nxt.insts[p+1:]...)
					}
				case "ro-on":
					if p < 0 || nxt.insts[p].ro {
						valid = false
					} else {
						nxt.insts[p].ro, nxt.insts[p].roTS = true, at
					}
				case "ro-off":
					if p < 0 || !nxt.insts[p].ro {
						valid = false
					} else {
						nxt.insts[p].ro, nxt.insts[p].roTS = false, at
					}
				}
				if !valid {
					return
				}
				if za {
					zs := map[string]bool{}
					for _, in := range nxt.insts {
						zs[in.zone] = true
					}
					if len(zs) != 2 {
						return
					}
				}
				cur = nxt
				epochs = append(epochs, epoch{at, cur})
			}
			rep.State(1)
			rings := make([]*ring.Ring, len(epochs))
			for k, ep := range epochs {
				rings[k] = newRing(ep.c, base, false)
			}
			final := rings[len(rings)-1]
			// the same content behind a caching client, queried in ascending and in descending order of the window start
			cachedAsc, cachedDesc := newRing(epochs[len(epochs)-1].c, base, true), newRing(epochs[len(epochs)-1].c, base, true)
			finalSet := map[string]bool{}
			for _, in := range cur.insts {
				finalSet[in.id] = true
			}
			lastAt := epochs[len(epochs)-1].from
			if len(h) == 0 {
				lastAt = b
			}
			for _, id := range idents[:8] {
				for size := 1; size <= 3; size++ {
					plain := make([][]string, len(epochs))
					for k := range epochs {
						plain[k] = members(rings[k].ShuffleShard(id, size))
					}
					// "depends only on ring content": a caching client asked in any order of query times answers like the cache-less one
					type qp struct{ dt, W int64 }
					var qps []qp
					for _, dt := range []int64{10, 60, 250} {
						for _, W := range []int64{30, 120, 1000} {
							qps = append(qps, qp{dt, W})
						}
					}
					sort.Slice(qps, func(i, j int) bool { return qps[i].dt-qps[i].W < qps[j].dt-qps[j].W })
					for pass, cr := range []*ring.Ring{cachedAsc, cachedDesc} {
						for k := range qps {
							q := qps[k]
							if pass == 1 {
								q = qps[len(qps)-1-k]
							}
							T := time.Unix(lastAt+q.dt, 0)
							want := members(final.ShuffleShardWithLookback(id, size, time.Duration(q.W)*time.Second, T))
							got := members(cr.ShuffleShardWithLookback(id, size, time.Duration(q.W)*time.Second, T))
							rep.Eval(1)
							if fmt.Sprint(want) != fmt.Sprint(got) {
								var hs []string
								for _, e := range h {
									hs = append(hs, e.String())
								}
								rep.Violate(fmt.Sprintf("lookback-cache:%v:%v:%s:%d:%d:%d:%d", za, hs, id, size, q.dt, q.W, pass), fmt.Sprintf("zone-aware=%v placement %v history %v: ShuffleShardWithLookback(%q, %d, window %ds, now = last event +%ds) answers %v on a caching client that served other query times before (pass %d: %s window starts) but %v on a cache-less client with the same content", za, lay[:5], hs, id, size, q.W, q.dt, got, pass, []string{"ascending", "descending"}[pass], want), nil)
							}
						}
					}
					for _, dt := range []int64{10, 60, 250} {
						T := lastAt + dt
						for _, W := range []int64{30, 120, 1000} {
							got := setOf(members(final.ShuffleShardWithLookback(id, size, time.Duration(W)*time.Second, time.Unix(T, 0))))
							rep.Eval(1)
							rep.Trans(1)
							oblig := map[string]bool{}
							for k, ep := range epochs {
								end := int64(1 << 62)
								if k+1 < len(epochs) {
									end = epochs[k+1].from
								}
								// epoch k is in force during [from, end); intersects [T-W, T]?
								if ep.from <= T && end > T-W {
									for _, x := range plain[k] {
										if finalSet[x] {
											oblig[x] = true
										}
									}
								}
							}
							extra := false
							for x := range oblig {
								if !got[x] {
									var hs []string
									for _, e := range h {
										hs = append(hs, e.String())
									}
									rep.Violate(fmt.Sprintf("lookback:%v:%v:%s:%d:%d:%d", za, hs, id, size, dt, W), fmt.Sprintf("zone-aware=%v placement %v history %v (events at +100s,+200s,…): ShuffleShardWithLookback(%q, %d, window %ds, now = last event +%ds) = %v lacks %s, which is still registered and was in the plain shard during the window (plain shards per epoch: %v)", za, lay[:5], hs, id, size, W, dt, keys(got), x, plain), nil)
								}
								if !setOf(plain[len(plain)-1])[x] {
									extra = true
								}
							}
							if extra {
								rep.Distinct(fmt.Sprintf("%d/%s/%d/%d/%d", ix, id, size, dt, W))
							}
						}
					}
				}
			}
			if ix%(total/3+1) == 5 {
				rep.Sample(fmt.Sprintf("za=%v history %v", za, h))
			}
		})
		if !ok {
			rep.NotExhaustive("deadline or violation cap")
		}
	})
	rep.Trace(rep.Transitions)
	if err := rep.Write(); err != nil {
		t.Fatal(err)
	}
}

func keys(m map[string]bool) []string {
	var o []string
	for k := range m {
		o = append(o, k)
	}
	sort.Strings(o)
	return o
}

// ---- partition ring ----

func pmembers(pr *ring.PartitionRing) []int32 {
	ids := pr.PartitionIDs()
	sort.Slice(ids, func(i, j int) bool { return ids[i] < ids[j] })
	return ids
}

func TestC12Partitions(t *testing.T) {
	rep := ev.NewReport("C12", "partition-shards")
	maxN := 5
	if ev.Thorough() {
		maxN = 6
	}
	rep.Bound = fmt.Sprintf("partition rings of 1..%d partitions (2 tokens each, 4 placements), every state vector over {pending, active, inactive} with state changes either long ago or 50 s ago; identifiers × sizes 0..n+2; look-back windows 20 s and 100 s", maxN)
	rep.Rule = "real PartitionRing.ShuffleShard: deterministic (fresh ring, cached path), exactly min(size, #active) active partitions (all active for size<=0), shard(size) ⊆ shard(size+1), removing one partition changes the shard by <=1; ShuffleShardWithLookback ⊇ plain shard of the ring before the recent state changes (restricted to partitions still registered), contains no pending partition, and inactive ones only if they changed within the window; distinct_nontrivial = rings × identifiers with a proper-subset shard"
	deadline := ev.Deadline(8 * time.Minute)
	base := time.Unix(1_000_000, 0)
	for n := 1; n <= maxN; n++ {
		states := 1
		for i := 0; i < n; i++ {
			states *= 5 // active-old, inactive-old, pending, inactive-recent(was active), active-recent(was inactive)
		}
		total := states * len(layouts)
		ok := enum.Par(total, deadline, func() bool { return rep.NumViolations() >= 10 }, func(ix int) {
			lay := layouts[ix/states]
			x := ix % states
			desc := ring.NewPartitionRingDesc()
			before := ring.NewPartitionRingDesc() // the ring 60 s ago
			var names []string
			for i := 0; i < n; i++ {
				k := x % 5
				x /= 5
				toks := []uint32{tokAlpha[lay[i]], tokAlpha[lay[i+6]]}
				sort.Slice(toks, func(a, b int) bool { return toks[a] < toks[b] })
				p := ring.PartitionDesc{Id: int32(i), Tokens: toks}
				old := p
				old.StateTimestamp = base.Unix() - 100000
				switch k {
				case 0:
					p.State, p.StateTimestamp = ring.PartitionActive, base.Unix()-100000
					old.State = ring.PartitionActive
				case 1:
					p.State, p.StateTimestamp = ring.PartitionInactive, base.Unix()-100000
					old.State = ring.PartitionInactive
				case 2:
					p.State, p.StateTimestamp = ring.PartitionPending, base.Unix()-100000
					old.State = ring.PartitionPending
				case 3:
					p.State, p.StateTimestamp = ring.PartitionInactive, base.Unix()-50
					old.State = ring.PartitionActive
				case 4:
					p.State, p.StateTimestamp = ring.PartitionActive, base.Unix()-50
					old.State = ring.PartitionInactive
				}
				desc.Partitions[int32(i)] = p
				before.Partitions[int32(i)] = old
				names = append(names, fmt.Sprintf("P%d:%s@%d", i, p.State, p.StateTimestamp-base.Unix()))
			}
			cs := fmt.Sprintf("%v tokens by placement %v", names, lay[:n])
			pr, err := ring.NewPartitionRing(*desc)
			pr2, _ := ring.NewPartitionRing(*desc)
			prBefore, _ := ring.NewPartitionRing(*before)
			if err != nil {
				rep.Violate("pshard:new:"+cs, err.Error(), nil)
				return
			}
			rep.State(1)
			active := 0
			for _, p := range desc.Partitions {
				if p.State == ring.PartitionActive {
					active++
				}
			}
			viol := func(kind, what string) {
				rep.Violate("pshard:"+kind+":"+cs, fmt.Sprintf("partition ring %s: %s", cs, what), map[string]any{"n": n, "ix": ix})
			}
			for _, id := range idents[:10] {
				shards := map[int][]int32{}
				for size := 0; size <= n+2; size++ {
					s, err := pr.ShuffleShard(id, size)
					rep.Eval(1)
					rep.Trans(1)
					if err != nil {
						viol("err", fmt.Sprintf("ShuffleShard(%q,%d): %v", id, size, err))
						continue
					}
					m := pmembers(s)
					shards[size] = m
					s2, _ := pr2.ShuffleShard(id, size)
					s3, _ := pr.ShuffleShard(id, size)
					if fmt.Sprint(pmembers(s2)) != fmt.Sprint(m) || fmt.Sprint(pmembers(s3)) != fmt.Sprint(m) {
						viol("determinism", fmt.Sprintf("ShuffleShard(%q,%d) = %v, fresh ring %v, cached %v", id, size, m, pmembers(s2), pmembers(s3)))
					}
					want := size
					if size <= 0 || size > active {
						want = active
					}
					if len(m) != want {
						viol("size", fmt.Sprintf("ShuffleShard(%q,%d) = %v, want %d active partitions", id, size, m, want))
					}
					if pr.ShuffleShardSize(size) != want {
						viol("shardsize", fmt.Sprintf("ShuffleShardSize(%d) = %d, want %d", size, pr.ShuffleShardSize(size), want))
					}
					for _, p := range m {
						if desc.Partitions[p].State != ring.PartitionActive {
							viol("inactive-member", fmt.Sprintf("ShuffleShard(%q,%d) contains partition %d in state %s", id, size, p, desc.Partitions[p].State))
						}
					}
					if want < active {
						rep.Distinct(fmt.Sprintf("%d/%d/%s", n, ix, id))
					}
					// look-back
					for _, W := range []int64{20, 100} {
						lb, err := pr.ShuffleShardWithLookback(id, size, time.Duration(W)*time.Second, base)
						rep.Eval(1)
						if err != nil {
							viol("lb-err", fmt.Sprintf("ShuffleShardWithLookback(%q,%d,%ds): %v", id, size, W, err))
							continue
						}
						got := map[int32]bool{}
						for _, p := range pmembers(lb) {
							got[p] = true
							st := desc.Partitions[p]
							if st.State == ring.PartitionPending {
								viol("lb-pending", fmt.Sprintf("look-back shard (%q,%d,%ds) contains pending partition %d", id, size, W, p))
							}
							if st.State == ring.PartitionInactive && st.StateTimestamp < base.Unix()-W {
								viol("lb-stale-inactive", fmt.Sprintf("look-back shard (%q,%d,%ds) contains partition %d inactive since before the window", id, size, W, p))
							}
						}
						for _, p := range m {
							if !got[p] {
								viol("lb-superset", fmt.Sprintf("look-back shard (%q,%d,%ds) = %v does not contain the plain shard %v", id, size, W, pmembers(lb), m))
							}
						}
						if W >= 100 {
							// the state 60 s ago is inside the window: its plain shard must be covered
							sb, _ := prBefore.ShuffleShard(id, size)
							for _, p := range pmembers(sb) {
								if !got[p] {
									viol("lb-history", fmt.Sprintf("look-back shard (%q,%d,%ds) = %v lacks partition %d which was in the shard %v of the ring as it was 60 s ago", id, size, W, pmembers(lb), p, pmembers(sb)))
								}
							}
						}
					}
				}
				for size := 1; size <= n+1; size++ {
					sm := map[int32]bool{}
					for _, p := range shards[size+1] {
						sm[p] = true
					}
					for _, p := range shards[size] {
						if !sm[p] {
							viol("containment", fmt.Sprintf("ShuffleShard(%q,%d) = %v ⊄ ShuffleShard(%q,%d) = %v", id, size, shards[size], id, size+1, shards[size+1]))
						}
					}
				}
				// stability under removal of one partition
				for k := 0; k < n && n > 1; k++ {
					d2 := ring.NewPartitionRingDesc()
					for pid, p := range desc.Partitions {
						if int(pid) != k {
							d2.Partitions[pid] = p
						}
					}
					pk, _ := ring.NewPartitionRing(*d2)
					for size := 1; size <= n; size++ {
						s, err := pk.ShuffleShard(id, size)
						rep.Eval(1)
						if err != nil {
							continue
						}
						a, b := shards[size], pmembers(s)
						as, bs := map[int32]bool{}, map[int32]bool{}
						for _, p := range a {
							as[p] = true
						}
						for _, p := range b {
							bs[p] = true
						}
						add, rm := 0, 0
						for p := range bs {
							if !as[p] {
								add++
							}
						}
						for p := range as {
							if !bs[p] {
								rm++
							}
						}
						if add > 1 || rm > 1 {
							viol("stability", fmt.Sprintf("removing partition %d changes ShuffleShard(%q,%d) from %v to %v", k, id, size, a, b))
						}
					}
				}
			}
			if ix%(total/3+1) == 3 {
				rep.Sample(cs)
			}
		})
		if !ok {
			rep.NotExhaustive("deadline or violation cap")
			break
		}
	}
	rep.Trace(rep.Transitions)
	if err := rep.Write(); err != nil {
		t.Fatal(err)
	}
}
