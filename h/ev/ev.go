// Package ev writes evidence files and the verdict protocol shared by all checks.
package ev

import (
	"encoding/json"
	"fmt"
	"os"
	"path/filepath"
	"sort"
	"strconv"
	"strings"
	"sync"
	"time"
	_ "unsafe"
)

// Tier returns "quick" or "thorough" (env VERIF_TIER).
func Tier() string {
	if os.Getenv("VERIF_TIER") == "thorough" {
		return "thorough"
	}
	return "quick"
}

func Thorough() bool { return Tier() == "thorough" }

// Seed returns VERIF_SEED (recorded only; nothing in the checks is sampled).
func Seed() int {
	n, _ := strconv.Atoi(os.Getenv("VERIF_SEED"))
	return n
}

// Shard returns (index, count) of this worker (env VERIF_SHARD="i/n"), default 0/1.
func Shard() (int, int) {
	s := os.Getenv("VERIF_SHARD")
	if s == "" {
		return 0, 1
	}
	p := strings.Split(s, "/")
	i, _ := strconv.Atoi(p[0])
	n, _ := strconv.Atoi(p[1])
	if n <= 0 {
		return 0, 1
	}
	return i, n
}

// Deadline is the internal wall-clock budget of a worker (env VERIF_BUDGET_S). Reaching it is
// never a violation: the run stops, reports exhaustive=false and what was completed.
func Deadline(def time.Duration) time.Time {
	if s := os.Getenv("VERIF_BUDGET_S"); s != "" {
		if n, err := strconv.Atoi(s); err == nil {
			return WallNow().Add(time.Duration(n) * time.Second)
		}
	}
	return WallNow().Add(def)
}

// Violation describes one counterexample.
type Violation struct {
	Key    string      `json:"key"`  // canonical identity (used for known-findings matching)
	What   string      `json:"what"` // human readable
	Replay interface{} `json:"replay,omitempty"`
}

// Report accumulates coverage of one worker. Safe for concurrent use.
type Report struct {
	mu          sync.Mutex
	Property    string                 `json:"property_id"`
	Part        string                 `json:"part"`
	Evaluations int64                  `json:"evaluations"`
	States      int64                  `json:"states"`
	Transitions int64                  `json:"transitions"`
	Traces      int64                  `json:"traces"`
	Nontrivial  map[string]struct{}    `json:"-"`
	NontrivialN int64                  `json:"distinct_nontrivial"`
	Rule        string                 `json:"rule"`
	Samples     []interface{}          `json:"samples"`
	Exhaustive  bool                   `json:"exhaustive"`
	CapHit      string                 `json:"cap_hit,omitempty"`
	Bound       string                 `json:"bound"`
	Extra       map[string]interface{} `json:"extra,omitempty"`
	Violations  []Violation            `json:"violations,omitempty"`
	Assumptions []string               `json:"assumptions,omitempty"`
	WallS       float64                `json:"wall_s"`
	start       time.Time
	maxSamples  int
	maxViol     int
}

func NewReport(property, part string) *Report {
	return &Report{Property: property, Part: part, Nontrivial: map[string]struct{}{}, Exhaustive: true,
		Extra: map[string]interface{}{}, start: WallNow(), maxSamples: 6, maxViol: 20}
}

func (r *Report) Eval(n int64)  { r.mu.Lock(); r.Evaluations += n; r.mu.Unlock() }
func (r *Report) State(n int64) { r.mu.Lock(); r.States += n; r.mu.Unlock() }
func (r *Report) Trans(n int64) { r.mu.Lock(); r.Transitions += n; r.mu.Unlock() }
func (r *Report) Trace(n int64) { r.mu.Lock(); r.Traces += n; r.mu.Unlock() }

// Distinct records one distinct non-trivial case (by key).
func (r *Report) Distinct(key string) {
	r.mu.Lock()
	if len(r.Nontrivial) < 5_000_000 {
		r.Nontrivial[key] = struct{}{}
	}
	r.mu.Unlock()
}

func (r *Report) Sample(s interface{}) {
	r.mu.Lock()
	if len(r.Samples) < r.maxSamples {
		r.Samples = append(r.Samples, s)
	}
	r.mu.Unlock()
}

func (r *Report) Add(k string, n int64) {
	r.mu.Lock()
	v, _ := r.Extra[k].(int64)
	r.Extra[k] = v + n
	r.mu.Unlock()
}

func (r *Report) Set(k string, v interface{}) { r.mu.Lock(); r.Extra[k] = v; r.mu.Unlock() }

func (r *Report) NotExhaustive(why string) {
	r.mu.Lock()
	r.Exhaustive = false
	if r.CapHit == "" {
		r.CapHit = why
	}
	r.mu.Unlock()
}

// Violate records a counterexample. Returns true when enough were collected to stop.
func (r *Report) Violate(key, what string, replay interface{}) bool {
	r.mu.Lock()
	defer r.mu.Unlock()
	for _, v := range r.Violations {
		if v.Key == key {
			return len(r.Violations) >= r.maxViol
		}
	}
	if len(r.Violations) < r.maxViol {
		r.Violations = append(r.Violations, Violation{Key: key, What: what, Replay: replay})
	}
	return len(r.Violations) >= r.maxViol
}

func (r *Report) NumViolations() int { r.mu.Lock(); defer r.mu.Unlock(); return len(r.Violations) }

// Write stores the partial report of this worker under $VERIF_OUT (a directory); the driver
// merges the parts into evidence/<id>.json and prints the verdict lines.
func (r *Report) Write() error {
	r.mu.Lock()
	defer r.mu.Unlock()
	r.WallS = WallNow().Sub(r.start).Seconds()
	r.NontrivialN = int64(len(r.Nontrivial))
	// distinct keys are exported (hashed set) so that the driver can union them across shards
	keys := make([]string, 0, len(r.Nontrivial))
	for k := range r.Nontrivial {
		keys = append(keys, k)
	}
	sort.Strings(keys)
	out := os.Getenv("VERIF_OUT")
	if out == "" {
		out = "."
	}
	i, n := Shard()
	name := fmt.Sprintf("%s.%s.%d-%d.json", r.Property, r.Part, i, n)
	type full struct {
		*Report
		Keys []string `json:"distinct_keys"`
	}
	if len(keys) > 200000 { // keep part files small; count is still exact per shard
		keys = nil
	}
	b, err := json.MarshalIndent(full{r, keys}, "", " ")
	if err != nil {
		return err
	}
	return os.WriteFile(filepath.Join(out, name), b, 0o644)
}

// The real clock, also inside a synctest bubble (where time.Now() is virtual).
var wallStart time.Time
var wallBase int64

//go:linkname nanotime runtime.nanotime
func nanotime() int64

func init() { wallStart = time.Now(); wallBase = nanotime() }

// WallNow returns real wall-clock time even inside a bubble. Used only for budgets, never as an oracle.
func WallNow() time.Time { return wallStart.Add(time.Duration(nanotime() - wallBase)) }
