// C10 — batched quorum writes succeed only with quorum on every key, and always finish.
// Engine E2: ring/batch.go runs under the controlled scheduler (atomic + sync shims via -overlay);
// every outcome vector × completion order × fine interleaving inside record (preemption-bounded)
// × "replica answers only after DoBatch returned" × caller cancellation is enumerated.
package c10

import (
	"context"
	"errors"
	"fmt"
	"os"
	"sort"
	"strings"
	"testing"
	"testing/synctest"
	"time"

	"github.com/grafana/dskit/ring"

	"verif/ev"
	"verif/sched"
)

type keySpec struct {
	replicas  []string
	maxErrors int
}

type scenario struct {
	name   string
	keys   []keySpec
	cancel bool // a canceller thread may cancel the caller's context at any point
	hold   bool // replicas may withhold their answer until DoBatch has returned
	pool   bool // custom Go spawner
	spawn  string // with pool: "" = `go f()` of the caller's own; "inline" = f() run synchronously by the spawner; "fifo1" = one worker running the functions in hand-over order
	big    bool // many hook points: explored with one preemption less
	same   bool // every key of the batch is the same key value (an item written several times in one batch)
	rf     int  // ReplicationFactor() reported by the ring (0 = largest replica set)
	ninst  int  // InstancesCount() reported by the ring (0 = number of distinct replicas)
}

type fakeRing struct{ sc scenario }

func (f fakeRing) Get(key uint32, _ ring.Operation, buf []ring.InstanceDesc, _, _ []string) (ring.ReplicationSet, error) {
	ks := f.sc.keys[key]
	out := buf[:0]
	for _, r := range ks.replicas {
		out = append(out, ring.InstanceDesc{Id: r, Addr: "addr-" + r, State: ring.ACTIVE})
	}
	return ring.ReplicationSet{Instances: out, MaxErrors: ks.maxErrors}, nil
}
func (f fakeRing) ReplicationFactor() int {
	if f.sc.rf > 0 {
		return f.sc.rf
	}
	n := 1
	for _, k := range f.sc.keys {
		if len(k.replicas) > n {
			n = len(k.replicas)
		}
	}
	return n
}
func (f fakeRing) InstancesCount() int {
	if f.sc.ninst > 0 {
		return f.sc.ninst
	}
	s := map[string]bool{}
	for _, k := range f.sc.keys {
		for _, r := range k.replicas {
			s[r] = true
		}
	}
	if len(s) == 0 {
		return 1
	}
	return len(s)
}

type clientErr struct{ who string }

func (c clientErr) Error() string { return "client error from " + c.who }

type serverErr struct{ who string }

func (s serverErr) Error() string { return "server error from " + s.who }

var errCancelled = errors.New("caller cancelled")

func scenarios() []scenario {
	base := []scenario{
		{name: "empty", keys: nil},
		{name: "1key-1rep", keys: []keySpec{{[]string{"A"}, 0}}},
		{name: "1key-2rep-m0", keys: []keySpec{{[]string{"A", "B"}, 0}}},
		{name: "1key-3rep-m1", keys: []keySpec{{[]string{"A", "B", "C"}, 1}}},
		{name: "2keys-shared-3rep-m1", big: true, keys: []keySpec{{[]string{"A", "B", "C"}, 1}, {[]string{"B", "C", "D"}, 1}}},
		{name: "3keys-rf1-uneven", keys: []keySpec{{[]string{"A"}, 0}, {[]string{"B"}, 0}, {[]string{"A"}, 0}}},
		{name: "3keys-rf1-uneven-of4", rf: 1, ninst: 4, keys: []keySpec{{[]string{"A"}, 0}, {[]string{"B"}, 0}, {[]string{"A"}, 0}}},
		{name: "3keys-rf1-uneven-of8", rf: 1, ninst: 8, keys: []keySpec{{[]string{"B"}, 0}, {[]string{"A"}, 0}, {[]string{"B"}, 0}}},
		{name: "2keys-2rep-m0", keys: []keySpec{{[]string{"A", "B"}, 0}, {[]string{"A", "B"}, 0}}},
		// a replica set smaller than the ring's replication factor (RF 5, one instance missing): quorum 3 of 4, one failure tolerated
		{name: "1key-4rep-m1-rf5", big: true, rf: 5, ninst: 4, keys: []keySpec{{[]string{"A", "B", "C", "D"}, 1}}},
	}
	if ev.Thorough() {
		base = append(base,
			scenario{name: "1key-4rep-m1", keys: []keySpec{{[]string{"A", "B", "C", "D"}, 1}}},
			scenario{name: "1key-5rep-m2", big: true, keys: []keySpec{{[]string{"A", "B", "C", "D", "E"}, 2}}},
			scenario{name: "3keys-overlap", big: true, keys: []keySpec{{[]string{"A", "B", "C"}, 1}, {[]string{"B", "C", "D"}, 1}, {[]string{"C", "D", "A"}, 1}}},
			scenario{name: "4keys-rf1-uneven", keys: []keySpec{{[]string{"A"}, 0}, {[]string{"A"}, 0}, {[]string{"B"}, 0}, {[]string{"A"}, 0}}},
		)
	}
	var out []scenario
	for _, s := range base {
		out = append(out, s)
		if len(s.keys) == 1 && s.rf > len(s.keys[0].replicas) && s.ninst == len(s.keys[0].replicas) {
			continue // the under-replicated set: the plain variant is what it is there for (keeps the quick tier small)
		}
		h := s
		h.name += "+hold"
		h.hold = true
		if len(s.keys) > 0 {
			out = append(out, h)
		}
		c := s
		c.name += "+cancel"
		c.cancel = true
		out = append(out, c)
	}
	// withheld answers AND cancellation: the call must return when the context ends although calls are in flight
	// (also when every key lives on one single instance)
	for _, i := range []int{1, 2, 5} {
		hc := base[i]
		hc.name += "+hold+cancel"
		hc.hold, hc.cancel = true, true
		out = append(out, hc)
	}
	p := base[3]
	p.name += "+pool"
	p.pool = true
	out = append(out, p)
	// the same key at consecutive positions of one batch: each position needs its own quorum bookkeeping
	out = append(out, scenario{name: "2x-samekey-3rep-m1", same: true, keys: []keySpec{{[]string{"A", "B", "C"}, 1}, {[]string{"A", "B", "C"}, 1}}},
		scenario{name: "2x-samekey-3rep-m1+hold", same: true, hold: true, keys: []keySpec{{[]string{"A", "B", "C"}, 1}, {[]string{"A", "B", "C"}, 1}}},
		scenario{name: "3x-samekey-2rep-m0+hold", same: true, hold: true, keys: []keySpec{{[]string{"A", "B"}, 0}, {[]string{"A", "B"}, 0}, {[]string{"A", "B"}, 0}}})
	// spawners that run the functions one after the other, in the order they were handed over (a synchronous
	// spawner; a pool whose single worker is free): every function handed over must be able to finish without
	// one handed over later having run
	for _, bi := range []int{0, 3, 5} {
		for _, sp := range []string{"inline", "fifo1"} {
			q := base[bi]
			q.name += "+" + sp
			q.pool, q.spawn = true, sp
			out = append(out, q)
			if sp == "fifo1" {
				q.name += "+cancel"
				q.cancel = true
				out = append(out, q)
			}
		}
	}
	// small scenarios first, so that a deadline cuts the deepest ones only
	sort.SliceStable(out, func(i, j int) bool { return !out[i].big && out[j].big })
	return out
}

type cbEvent struct {
	id      string
	idxs    []int
	outcome int // 0 ok 1 client 2 server
	seq     int64
}

// keyStatus from the answers that have been given so far
func keyStatus(ks keySpec, answered map[string]int) (ok, failed bool) {
	succ, cl, sv, n := 0, 0, 0, 0
	for _, r := range ks.replicas {
		o, has := answered[r]
		if !has {
			continue
		}
		n++
		switch o {
		case 0:
			succ++
		case 1:
			cl++
		case 2:
			sv++
		}
	}
	minSuccess := len(ks.replicas) - ks.maxErrors
	ok = succ >= minSuccess
	failed = cl > ks.maxErrors || sv > ks.maxErrors || (n == len(ks.replicas) && succ < minSuccess)
	return
}

func runOne(t *testing.T, sc scenario, ch *sched.Chooser) (res sched.Result) {
	synctest.Test(t, func(t *testing.T) {
		e := sched.NewExec(ch)
		e.MaxSteps = 3000
		ctx, cancel := context.WithCancelCause(context.Background())
		defer cancel(nil)
		released := false
		callerReturned := false
		cleanedUp := false
		var retErr error
		errsBy := map[string]error{}
		keys := make([]uint32, len(sc.keys))
		for i := range keys {
			keys[i] = uint32(i)
			if sc.same {
				keys[i] = 0 // sc.keys are all alike: the same key at consecutive positions of the batch
			}
		}
		callback := func(in ring.InstanceDesc, idxs []int) error {
			if sc.spawn == "" {
				sched.SetName("r:" + in.Id)
			}
			n := 3
			if sc.hold {
				n = 4
			}
			k := sched.Choose("answer", n, false)
			if k == 3 {
				sched.YieldUntil("held", func() bool { return released || callerReturned })
				k = sched.Choose("late-answer", 3, false)
			}
			sched.Obs(fmt.Sprintf("cb %s idx=%v outcome=%d", in.Id, idxs, k))
			switch k {
			case 1:
				err := clientErr{in.Id}
				return err
			case 2:
				return serverErr{in.Id}
			}
			return nil
		}
		opts := ring.DoBatchOptions{
			Cleanup:       func() { sched.Obs("cleanup"); cleanedUp = true },
			IsClientError: func(err error) bool { _, ok := err.(clientErr); return ok },
		}
		var fifo chan func()
		if sc.pool {
			n := 0
			switch sc.spawn {
			case "inline":
				opts.Go = func(f func()) { f() } // runs every function to its end before it takes the next
			case "fifo1":
				fifo = make(chan func(), 16) // one worker, functions in hand-over order
				opts.Go = func(f func()) { fifo <- f }
			default:
				opts.Go = func(f func()) {
					n++
					go f() // a spawner of the caller's own: same semantics, different goroutine creation site
				}
			}
		}
		e.Enable()
		if fifo != nil {
			e.Go("worker", func() {
				for {
					// the worker goes home once the batch is over (the clean-up is the last function a batch hands over;
					// a batch that ends before it fans out cleans up by itself)
					sched.YieldUntil("queue", func() bool { return len(fifo) > 0 || (cleanedUp && callerReturned) })
					if len(fifo) == 0 {
						return
					}
					f := <-fifo
					f()
				}
			})
		}
		e.Go("caller", func() {
			err := ring.DoBatchWithOptions(ctx, ring.Write, fakeRing{sc}, keys, callback, opts)
			retErr = err
			callerReturned = true
			sched.Obs(fmt.Sprintf("return %v", err))
		})
		if sc.cancel {
			e.Go("zz-cancel", func() {
				sched.Obs("cancel")
				cancel(errCancelled)
			})
		}
		_ = errsBy
		status := e.Run()
		var viol, key string
		fail := func(k, format string, a ...any) {
			if viol == "" {
				viol, key = fmt.Sprintf(format, a...), k
			}
		}
		parse := func() (cbs []cbEvent, retSeq, cancelSeq, cleanupSeq int64, cleanups int) {
			for _, evn := range e.Events() {
				switch {
				case strings.HasPrefix(evn.Text, "cb "):
					var c cbEvent
					var idx string
					f := strings.Fields(evn.Text)
					c.id = f[1]
					idx = strings.TrimSuffix(strings.TrimPrefix(strings.Join(f[2:len(f)-1], " "), "idx=["), "]")
					for _, x := range strings.Fields(idx) {
						var v int
						fmt.Sscan(x, &v)
						c.idxs = append(c.idxs, v)
					}
					fmt.Sscanf(f[len(f)-1], "outcome=%d", &c.outcome)
					c.seq = evn.Seq
					cbs = append(cbs, c)
				case strings.HasPrefix(evn.Text, "return "):
					retSeq = evn.Seq
				case evn.Text == "cancel":
					cancelSeq = evn.Seq
				case evn.Text == "cleanup":
					cleanupSeq = evn.Seq
					cleanups++
				}
			}
			return
		}
		determined := func(cbs []cbEvent, before int64) (succ, failed bool, failedKeys []int) {
			ans := map[string]int{}
			for _, c := range cbs {
				if before == 0 || c.seq < before {
					ans[c.id] = c.outcome
				}
			}
			succ = true
			for i, ks := range sc.keys {
				ok, f := keyStatus(ks, ans)
				if !ok {
					succ = false
				}
				if f {
					failed = true
					failedKeys = append(failedKeys, i)
				}
			}
			return
		}
		if status == "stuck" && !callerReturned {
			// Replicas are withholding answers (or nothing is left to run). Was the outcome already decided?
			cbs, _, cancelSeq, _, _ := parse()
			succ, failed, _ := determined(cbs, 0)
			switch {
			case cancelSeq != 0:
				fail("hang-after-cancel", "DoBatch did not return although the caller's context was cancelled (answers so far %v)", cbs)
			case succ && len(sc.keys) > 0:
				fail("hang-quorum", "DoBatch did not return although every key has its quorum of acknowledgements: %v", cbs)
			case failed:
				fail("hang-failed", "DoBatch did not return although a key can no longer reach quorum: %v", cbs)
			case len(e.Parked()) == 0:
				fail("hang-all-returned", "DoBatch did not return although all %d replica calls have returned and the context is live (keys=%d)", len(cbs), len(sc.keys))
			}
			if len(e.Parked()) > 0 {
				released = true
				status = e.Run()
			}
		}
		cbs, retSeq, cancelSeq, cleanupSeq, cleanups := parse()
		if status != "done" && viol == "" {
			if !callerReturned {
				fail("hang-final", "DoBatch never returned: status=%s parked=%v log=%v", status, e.Parked(), e.CanonLog())
			} else {
				fail("stuck-final", "execution did not finish: status=%s parked=%v", status, e.Parked())
			}
		}
		if callerReturned && viol == "" {
			// which replicas must be called, with which indexes
			want := map[string][]int{}
			for i, ks := range sc.keys {
				for _, r := range ks.replicas {
					want[r] = append(want[r], i)
				}
			}
			got := map[string][]int{}
			for _, c := range cbs {
				if _, dup := got[c.id]; dup {
					fail("called-twice", "replica %s called more than once", c.id)
				}
				got[c.id] = c.idxs
			}
			if status == "done" && cancelSeq == 0 && fmt.Sprint(got) != fmt.Sprint(want) {
				fail("wrong-indexes", "replica calls %v, want exactly %v", got, want)
			}
			gotIDs := make([]string, 0, len(got))
			for id := range got {
				gotIDs = append(gotIDs, id)
			}
			sort.Strings(gotIDs)
			for _, id := range gotIDs {
				idx := got[id]
				if fmt.Sprint(idx) != fmt.Sprint(want[id]) {
					fail("wrong-indexes", "replica %s called with indexes %v, want %v", id, idx, want[id])
				}
			}
			// verdict at the moment of return
			succ, failed, failedKeys := determined(cbs, retSeq)
			cancelledBefore := cancelSeq != 0 && cancelSeq < retSeq
			switch {
			case retErr == nil:
				if !succ {
					fail("early-success", "DoBatch returned success but at that moment not every key had its quorum: answers before return %v", cbs)
				}
			case errors.Is(retErr, errCancelled):
				if !cancelledBefore {
					fail("phantom-cancel", "DoBatch returned the cancellation cause but the context was not cancelled before")
				}
			default:
				if !failed {
					fail("early-error", "DoBatch returned error %v but at that moment no key was beyond quorum: answers before return %v", retErr, cbs)
				} else {
					okErr := false
					for _, c := range cbs {
						if c.seq > retSeq || c.outcome == 0 {
							continue
						}
						for _, fk := range failedKeys {
							for _, r := range sc.keys[fk].replicas {
								if r == c.id && strings.HasSuffix(retErr.Error(), "from "+c.id) {
									okErr = true
								}
							}
						}
					}
					if !okErr {
						fail("foreign-error", "DoBatch returned %v which no replica of a failed key (%v) had returned: %v", retErr, failedKeys, cbs)
					}
				}
			}
			// when all answers were in and nothing was cancelled, the verdict must match the final tally
			if status == "done" {
				fs, ff, _ := determined(cbs, 0)
				if cancelSeq == 0 && len(cbs) == len(want) {
					if retErr == nil && !fs {
						fail("final-success", "success reported, final tally lacks quorum: %v", cbs)
					}
					_ = ff
				}
				if cleanups != 1 {
					fail("cleanup-count", "cleanup ran %d times", cleanups)
				}
				for _, c := range cbs {
					if cleanups == 1 && c.seq > cleanupSeq {
						fail("cleanup-early", "cleanup ran before replica %s returned", c.id)
					}
				}
			}
		}
		out := fmt.Sprintf("ret=%v|", retErr)
		var oc []string
		for _, c := range cbs {
			oc = append(oc, fmt.Sprintf("%s:%d", c.id, c.outcome))
		}
		sort.Strings(oc)
		trace := append(append([]string{}, e.Trace...), e.CanonLog()...)
		cancel(nil)
		released = true
		if leaked := sched.ShimLeaks(e.Teardown()); len(leaked) > 0 {
			fail("leak", "after DoBatch returned, every replica call returned and the context was cancelled, goroutines are still blocked for ever at %v", leaked)
		}
		res = sched.Result{Violation: viol, Key: key, Outcome: out + strings.Join(oc, ","), Trace: trace}
	})
	return
}

func TestC10(t *testing.T) {
	rep := ev.NewReport("C10", "dobatch")
	bound := 2
	if ev.Thorough() {
		bound = 3
	}
	if b := os.Getenv("VERIF_BOUND"); b != "" {
		fmt.Sscan(b, &bound)
	}
	scs := scenarios()
	var names []string
	for _, s := range scs {
		names = append(names, s.name)
	}
	rep.Bound = fmt.Sprintf("scenarios %v; per replica call outcome ∈ {ok, client error, server error} (and, in +hold scenarios, 'answer only after DoBatch returned'); all schedules with <= %d preemptions (one less for the scenarios with 2+ keys on 3 shared replicas / 5 replicas) over the hook points (every atomic/WaitGroup operation of ring/batch.go, callback entry, caller, cleanup goroutine, canceller)", names, bound)
	rep.Rule = "stateless DFS over scheduler + environment choices on the real DoBatchWithOptions; oracle from the observation log: success only with quorum on every key at return time, error only when a key is beyond quorum and equal to an error a replica of such a key returned, cancellation cause only after cancel, each replica called once with exactly its key indexes, cleanup once after all calls, always returns (also for an empty key list); distinct_nontrivial = distinct (scenario, return value, outcome vector) observed"
	rep.Assumptions = []string{"goroutine segments between hook points commute unless they race (separate -race pass) — audited by replaying every 500th execution and every violation 5×"}
	deadline := ev.Deadline(8 * time.Minute)
	complete := true
	for _, sc := range scs {
		b := bound
		if sc.big {
			b--
		}
		x := &sched.Explorer{Bound: b, Report: rep, Deadline: deadline, Scenario: sc.name,
			Run: func(c *sched.Chooser) sched.Result { return runOne(t, sc, c) }}
		if !x.ExploreOrReplay() {
			complete = false
			rep.NotExhaustive("deadline or violation cap in scenario " + sc.name)
			break
		}
		rep.Set("execs_"+sc.name, x.Execs)
		rep.Set("outcomes_"+sc.name, x.Outcomes())
		if x.Execs > 0 {
			rep.Sample(fmt.Sprintf("scenario %s: %d executions, %d distinct outcomes", sc.name, x.Execs, x.Outcomes()))
		}
	}
	_ = complete
	if err := rep.Write(); err != nil {
		t.Fatal(err)
	}
}

// TestC02Executor is a part of C02 (not of C10): the intersection argument of C02 takes the write executor's
// acknowledgement criterion — an item succeeds only with len(replicas)-MaxErrors acknowledgements of ITS OWN
// replicas — from here, where it is checked on the real DoBatch for the batch shapes the criterion could depend
// on: one item, several items on shared replicas, the same key at consecutive positions.
func TestC02Executor(t *testing.T) {
	rep := ev.NewReport("C02", "write-executor-criterion")
	keep := map[string]bool{"1key-2rep-m0": true, "1key-3rep-m1": true, "1key-3rep-m1+hold": true, "2keys-2rep-m0": true, "2keys-2rep-m0+hold": true,
		"2x-samekey-3rep-m1": true, "2x-samekey-3rep-m1+hold": true, "3x-samekey-2rep-m0+hold": true}
	var scs []scenario
	var names []string
	for _, s := range scenarios() {
		if keep[s.name] {
			scs = append(scs, s)
			names = append(names, s.name)
		}
	}
	bound := 2
	rep.Bound = fmt.Sprintf("write executor (real DoBatchWithOptions) on scenarios %v, every outcome vector, all schedules with <= %d preemptions", names, bound)
	rep.Rule = "the acknowledging subsets C02 intersects are exactly those the executor accepts: success is reported only when every item of the batch has len(replicas)-MaxErrors acknowledgements at that moment (same oracle as C10); distinct_nontrivial = distinct (scenario, return value, outcome vector)"
	deadline := ev.Deadline(4 * time.Minute)
	for _, sc := range scs {
		x := &sched.Explorer{Bound: bound, Report: rep, Deadline: deadline, Scenario: sc.name,
			Run: func(c *sched.Chooser) sched.Result { return runOne(t, sc, c) }}
		if !x.ExploreOrReplay() {
			rep.NotExhaustive("deadline or violation cap in scenario " + sc.name)
			break
		}
		rep.Sample(fmt.Sprintf("scenario %s: %d executions, %d distinct outcomes", sc.name, x.Execs, x.Outcomes()))
	}
	if err := rep.Write(); err != nil {
		t.Fatal(err)
	}
}
