// Package racepass is the separate, free-running pass that audits the one assumption every controlled-
// scheduler check (engine E2) and every single-threaded enumeration makes: between two synchronisation
// operations the code under test touches shared memory only under the locks it takes. A cooperative
// scheduler cannot see an unsynchronised access (its hand-offs are happens-before edges), and a lock that a
// change removes takes its hook points with it — so these bodies run the same operations as the checks on
// real goroutines, natively, under the Go race detector (the driver builds this package with -race and no
// overlay). The bodies themselves share nothing but what they hand to dskit, atomics and channels: every
// race report with a dskit frame on top of either access is a violation; reports between two harness
// frames would be a harness bug and are reported as such.
//
// This pass is not model checking and decides nothing by itself about schedules: it is the audit the
// technique's guidance asks for ("in a separate, free-running run of the same harness bodies").
package racepass

import (
	"context"
	"errors"
	"fmt"
	"sync"
	"sync/atomic"
	"testing"
	"time"

	"github.com/go-kit/log"

	"github.com/grafana/dskit/cache"
	"github.com/grafana/dskit/kv"
	"github.com/grafana/dskit/kv/codec"
	"github.com/grafana/dskit/kv/consul"
	"github.com/grafana/dskit/kv/etcd"
	"github.com/grafana/dskit/kv/memberlist"
	"github.com/grafana/dskit/modules"
	"github.com/grafana/dskit/ring"
	"github.com/grafana/dskit/services"

	"verif/ev"
)

func rounds(quick, thorough int) int {
	if ev.Thorough() {
		return thorough
	}
	return quick
}

func finish(t *testing.T, rep *ev.Report, what string) {
	rep.Bound = what
	rep.Rule = "free-running execution on real goroutines under the Go race detector (no scheduler, no overlay); the driver turns every reported data race with a dskit frame on top of either access into a violation; the functional assertions of the bodies (all acknowledged updates present, every call returns) are checked too"
	rep.Trace(rep.Evaluations)
	if err := rep.Write(); err != nil {
		t.Fatal(err)
	}
}

func newDesc(ids ...string) *ring.Desc {
	d := ring.NewDesc()
	for i, id := range ids {
		d.Ingesters[id] = ring.InstanceDesc{Id: id, Addr: id, Zone: string(rune('a' + i%3)), State: ring.ACTIVE, Timestamp: time.Now().Unix(), Tokens: []uint32{uint32(i+1) * 1000, uint32(i+1)*1000 + 1<<30}, RegisteredTimestamp: time.Now().Unix() - 1000}
	}
	return d
}

// ---- C07: concurrent CAS on every backend ----

func casWorkload(t *testing.T, rep *ev.Report, name string, c kv.Client, callers, each int) {
	ctx := context.Background()
	var wg sync.WaitGroup
	wctx, cancel := context.WithCancel(ctx)
	var seen atomic.Int64
	go c.WatchKey(wctx, "k", func(v interface{}) bool { seen.Add(1); return true })
	var acked atomic.Int64
	for g := 0; g < callers; g++ {
		wg.Add(1)
		go func(g int) {
			defer wg.Done()
			for k := 0; k < each; k++ {
				id := fmt.Sprintf("g%d-%d", g, k)
				err := c.CAS(ctx, "k", func(in interface{}) (interface{}, bool, error) {
					d := ring.GetOrCreateRingDesc(in)
					d.Ingesters[id] = ring.InstanceDesc{Id: id, Addr: id, State: ring.ACTIVE, Timestamp: time.Now().Unix(), Tokens: []uint32{uint32(g*1000 + k)}}
					return d, true, nil
				})
				if err == nil {
					acked.Add(1)
				}
				if k%5 == 0 {
					_, _ = c.Get(ctx, "k")
				}
				rep.Eval(1)
			}
		}(g)
	}
	wg.Wait()
	cancel()
	v, err := c.Get(ctx, "k")
	if err != nil {
		t.Fatalf("%s: %v", name, err)
	}
	if got := len(ring.GetOrCreateRingDesc(v).Ingesters); int64(got) != acked.Load() {
		rep.Violate("race:C07:"+name+":lost", fmt.Sprintf("%s: %d CAS calls were acknowledged but the value holds %d entries", name, acked.Load(), got), nil)
	}
}

func TestRaceC07(t *testing.T) {
	rep := ev.NewReport("C07", "race-audit")
	n := rounds(2, 6)
	for r := 0; r < n; r++ {
		cc, cl := consul.NewInMemoryClientWithConfig(ring.GetCodec(), consul.Config{MaxCasRetries: 200}, log.NewNopLogger(), nil)
		casWorkload(t, rep, "consul", cc, 4, 15)
		_ = cl.Close()
		ec, ecl := etcd.VerifNewInMemoryClientWithRetries(ring.GetCodec(), log.NewNopLogger(), 200)
		casWorkload(t, rep, "etcd", ec, 4, 15)
		_ = ecl.Close()
		m, err := memberlist.VerifNewDetachedKV(memberlist.KVConfig{RetransmitMult: 1, Codecs: []codec.Codec{ring.GetCodec()}, ProcessedMessagesQueueSize: 8, WatchPrefixBufferSize: 128}, log.NewNopLogger(), func() int { return 1 })
		if err != nil {
			t.Fatal(err)
		}
		m.VerifSetMaxCasRetries(200)
		mc, err := memberlist.NewClient(m, ring.GetCodec())
		if err != nil {
			t.Fatal(err)
		}
		casWorkload(t, rep, "gossip", mc, 4, 15)
		mp := kv.VerifNewMultiClient(kv.MultiConfig{MirrorEnabled: true}, cc, mc, log.NewNopLogger())
		_ = mp
		m.VerifShutdown()
	}
	finish(t, rep, fmt.Sprintf("%d rounds × {in-memory consul, etcd mock, one gossip node}: 4 callers × 15 CAS each adding one entry, interleaved Get, one watcher", n))
}

// ---- C04/C06: two gossip nodes with a message pump ----

func TestRaceC06(t *testing.T) {
	rep := ev.NewReport("C06", "race-audit")
	n := rounds(2, 6)
	for r := 0; r < n; r++ {
		var nodes []*memberlist.KV
		var clients []*memberlist.Client
		for i := 0; i < 2; i++ {
			m, err := memberlist.VerifNewDetachedKV(memberlist.KVConfig{RetransmitMult: 2, LeftIngestersTimeout: time.Minute, Codecs: []codec.Codec{ring.GetCodec()}, ProcessedMessagesQueueSize: 8, WatchPrefixBufferSize: 128}, log.NewNopLogger(), func() int { return 2 })
			if err != nil {
				t.Fatal(err)
			}
			c, err := memberlist.NewClient(m, ring.GetCodec())
			if err != nil {
				t.Fatal(err)
			}
			nodes, clients = append(nodes, m), append(clients, c)
		}
		ctx, cancel := context.WithCancel(context.Background())
		var bg sync.WaitGroup
		for i := range nodes {
			bg.Add(2)
			go func(i int) { // the network: broadcasts of node i reach the other node; now and then a full-state exchange
				defer bg.Done()
				for k := 0; ctx.Err() == nil; k++ {
					for _, msg := range nodes[i].GetBroadcasts(0, 1<<16) {
						nodes[1-i].NotifyMsg(append([]byte(nil), msg...))
					}
					if k%7 == 0 {
						nodes[1-i].MergeRemoteState(nodes[i].LocalState(false), false)
					}
					time.Sleep(200 * time.Microsecond)
				}
			}(i)
			go func(i int) {
				defer bg.Done()
				clients[i].WatchKey(ctx, "ring", func(interface{}) bool { return true })
			}(i)
			go clients[i].WatchPrefix(ctx, "ri", func(string, interface{}) bool { return true })
		}
		var wg sync.WaitGroup
		for i := range nodes {
			for g := 0; g < 2; g++ {
				wg.Add(1)
				go func(i, g int) {
					defer wg.Done()
					for k := 0; k < 12; k++ {
						id := fmt.Sprintf("n%dg%d-%d", i, g, k)
						_ = clients[i].CAS(ctx, "ring", func(in interface{}) (interface{}, bool, error) {
							d := ring.GetOrCreateRingDesc(in)
							if k%4 == 3 {
								delete(d.Ingesters, fmt.Sprintf("n%dg%d-%d", i, g, k-1))
							} else {
								d.Ingesters[id] = ring.InstanceDesc{Id: id, Addr: id, State: ring.ACTIVE, Timestamp: time.Now().Unix(), Tokens: []uint32{uint32(i*100000 + g*1000 + k)}}
							}
							return d, true, nil
						})
						_, _ = clients[i].Get(ctx, "ring")
						rep.Eval(1)
					}
				}(i, g)
			}
		}
		wg.Wait()
		time.Sleep(20 * time.Millisecond)
		cancel()
		bg.Wait()
		for _, m := range nodes {
			m.VerifShutdown()
		}
	}
	finish(t, rep, fmt.Sprintf("%d rounds × 2 detached gossip nodes: 2 writers per node (add / remove entries), a pump delivering every broadcast and periodic full-state exchanges in both directions, key and prefix watchers, readers", n))
}

// ---- C10 / C11: fan-out executors ----

func TestRaceC10(t *testing.T) {
	rep := ev.NewReport("C10", "race-audit")
	r, err := ring.NewWithStoreClientAndStrategy(ring.Config{HeartbeatTimeout: time.Hour, ReplicationFactor: 3}, "race", "ring", nil, ring.NewDefaultReplicationStrategy(), nil, log.NewNopLogger())
	if err != nil {
		t.Fatal(err)
	}
	r.VerifUpdateRingState(newDesc("a", "b", "c", "d", "e"))
	keys := make([]uint32, 40)
	for i := range keys {
		keys[i] = uint32(i) * 104729 * 977
	}
	n := rounds(30, 200)
	var wg sync.WaitGroup
	for g := 0; g < 6; g++ {
		wg.Add(1)
		go func(g int) {
			defer wg.Done()
			for k := 0; k < n; k++ {
				ctx, cancel := context.WithTimeout(context.Background(), 20*time.Second) // a body never waits for ever
				var calls atomic.Int64
				cleaned := make(chan struct{})
				err := ring.DoBatchWithOptions(ctx, ring.Write, r, keys, func(in ring.InstanceDesc, idx []int) error {
					calls.Add(int64(len(idx)))
					if (g+k)%5 == 0 && in.Id == "b" {
						return errors.New("replica b fails")
					}
					if (g+k)%7 == 0 && in.Id == "c" {
						cancel()
					}
					return nil
				}, ring.DoBatchOptions{Cleanup: func() { close(cleaned) }})
				if errors.Is(err, context.DeadlineExceeded) {
					rep.Violate("race:C10:hang", "DoBatchWithOptions did not return within 20 s although every callback returned at once", nil)
					cancel()
					return
				}
				select {
				case <-cleaned:
				case <-time.After(10 * time.Second):
					rep.Violate("race:C10:cleanup", "DoBatch: the cleanup callback did not run within 10 s", nil)
				}
				cancel()
				rep.Eval(1)
			}
		}(g)
	}
	wg.Wait()
	finish(t, rep, fmt.Sprintf("6 concurrent callers × %d DoBatchWithOptions calls (40 keys, RF 3 over 5 instances of a real ring; some with a failing replica, some cancelled from inside a callback)", n))
}

func TestRaceC11(t *testing.T) {
	rep := ev.NewReport("C11", "race-audit")
	set := ring.ReplicationSet{MaxUnavailableZones: 1, ZoneAwarenessEnabled: true}
	for i := 0; i < 6; i++ {
		id := fmt.Sprintf("i%d", i)
		set.Instances = append(set.Instances, ring.InstanceDesc{Id: id, Addr: id, Zone: string(rune('a' + i/2))})
	}
	plain := ring.ReplicationSet{MaxErrors: 1}
	for i := 0; i < 3; i++ {
		id := fmt.Sprintf("p%d", i)
		plain.Instances = append(plain.Instances, ring.InstanceDesc{Id: id, Addr: id})
	}
	n := rounds(30, 200)
	var wg sync.WaitGroup
	for g := 0; g < 6; g++ {
		wg.Add(1)
		go func(g int) {
			defer wg.Done()
			for k := 0; k < n; k++ {
				var cleaned atomic.Int64
				f := func(ctx context.Context, in *ring.InstanceDesc) (string, error) {
					if (g+k)%4 == 0 && (in.Id == "i0" || in.Id == "p0") {
						return "", errors.New("fails")
					}
					if (g+k)%3 == 0 {
						select {
						case <-ctx.Done():
							return "", ctx.Err()
						case <-time.After(time.Duration(len(in.Id)+k%3) * 50 * time.Microsecond):
						}
					}
					return in.Id, nil
				}
				cfg := ring.DoUntilQuorumConfig{MinimizeRequests: k%2 == 0}
				if k%4 == 0 {
					cfg.HedgingDelay = 100 * time.Microsecond
				}
				s := set
				if k%3 == 1 {
					s = plain
				}
				_, _ = ring.DoUntilQuorum(context.Background(), s, cfg, f, func(string) { cleaned.Add(1) })
				_, _ = ring.DoMultiUntilQuorumWithoutSuccessfulContextCancellation(context.Background(), []ring.ReplicationSet{plain, plain}, cfg,
					func(ctx context.Context, in *ring.InstanceDesc, _ context.CancelCauseFunc) (string, error) {
						return f(ctx, in)
					}, func(string) { cleaned.Add(1) })
				_, _ = plain.Do(context.Background(), 0, func(ctx context.Context, in *ring.InstanceDesc) (interface{}, error) { return f(ctx, in) })
				rep.Eval(3)
			}
		}(g)
	}
	wg.Wait()
	finish(t, rep, fmt.Sprintf("6 concurrent callers × %d rounds of DoUntilQuorum (zone-aware 6 instances / plain 3 instances, minimisation and hedging on and off, failures, slow calls), DoMultiUntilQuorumWithoutSuccessfulContextCancellation and the legacy Do", n))
}

// ---- C13: readers racing with ring updates ----

func TestRaceC13(t *testing.T) {
	rep := ev.NewReport("C13", "race-audit")
	r, err := ring.NewWithStoreClientAndStrategy(ring.Config{HeartbeatTimeout: time.Hour, ReplicationFactor: 2, ZoneAwarenessEnabled: true}, "race", "ring", nil, ring.NewDefaultReplicationStrategy(), nil, log.NewNopLogger())
	if err != nil {
		t.Fatal(err)
	}
	ids := []string{"a", "b", "c", "d", "e", "f"}
	r.VerifUpdateRingState(newDesc(ids...))
	n := rounds(150, 1000)
	ctx, cancel := context.WithCancel(context.Background())
	var wg sync.WaitGroup
	for g := 0; g < 4; g++ {
		wg.Add(1)
		go func(g int) {
			defer wg.Done()
			for k := 0; ctx.Err() == nil; k++ {
				tenant := fmt.Sprintf("t%d", k%3)
				sub := r.ShuffleShard(tenant, 2+g%2)
				_, _ = sub.Get(uint32(k)*7919, ring.Write, nil, nil, nil)
				lb := r.ShuffleShardWithLookback(tenant, 2, time.Hour, time.Now())
				_, _ = lb.GetAllHealthy(ring.Read)
				_, _ = r.Get(uint32(k)*104729, ring.Read, nil, nil, nil)
				_, _ = r.GetReplicationSetForOperation(ring.Read)
				_ = r.InstancesCount() + r.ZonesCount()
				_, _ = r.GetTokenRangesForInstance(ids[k%len(ids)])
				if k%50 == 0 {
					r.CleanupShuffleShardCache(tenant)
				}
				rep.Eval(1)
			}
		}(g)
	}
	for k := 0; k < n; k++ {
		d := newDesc(ids...) // a fresh descriptor every time: the ring keeps what it is given
		switch k % 4 {
		case 1:
			in := d.Ingesters["b"]
			in.State = ring.LEAVING
			d.Ingesters["b"] = in
		case 2:
			delete(d.Ingesters, "c")
		case 3:
			in := d.Ingesters["d"]
			in.Tokens = []uint32{4001, 4002 + uint32(k)}
			d.Ingesters["d"] = in
		}
		r.VerifUpdateRingState(d)
		time.Sleep(50 * time.Microsecond)
	}
	cancel()
	wg.Wait()
	finish(t, rep, fmt.Sprintf("4 reader goroutines (ShuffleShard, ShuffleShardWithLookback, Get, ring-wide read set, counts, token ranges, cache clean-up) against %d ring updates (heartbeat-only, state, removal, token change) through the watch-callback path", n))
}

// ---- C17 / C18: services, manager, modules ----

type nopListener struct{ n *atomic.Int64 }

func (l nopListener) Starting()                    { l.n.Add(1) }
func (l nopListener) Running()                     { l.n.Add(1) }
func (l nopListener) Stopping(services.State)      { l.n.Add(1) }
func (l nopListener) Terminated(services.State)    { l.n.Add(1) }
func (l nopListener) Failed(services.State, error) { l.n.Add(1) }
func (l nopListener) Healthy()                     { l.n.Add(1) }
func (l nopListener) Stopped()                     { l.n.Add(1) }
func (l nopListener) Failure(services.Service)     { l.n.Add(1) }
func mkService(k int) services.Service {
	start := func(ctx context.Context) error {
		if k%7 == 3 {
			return errors.New("start fails")
		}
		return nil
	}
	run := func(ctx context.Context) error {
		if k%5 == 2 {
			return errors.New("run fails")
		}
		<-ctx.Done()
		return nil
	}
	stop := func(error) error {
		if k%11 == 4 {
			return errors.New("stop fails")
		}
		return nil
	}
	switch k % 3 {
	case 1:
		return services.NewIdleService(start, stop)
	case 2:
		return services.NewTimerService(100*time.Microsecond, start, func(context.Context) error { return nil }, stop)
	}
	return services.NewBasicService(start, run, stop)
}

func TestRaceC17(t *testing.T) {
	rep := ev.NewReport("C17", "race-audit")
	n := rounds(150, 1000)
	var calls atomic.Int64
	for k := 0; k < n; k++ {
		s := mkService(k)
		remove := s.AddListener(nopListener{&calls})
		var wg sync.WaitGroup
		ctx, cancel := context.WithTimeout(context.Background(), 5*time.Second)
		for _, fn := range []func(){
			func() { _ = s.StartAsync(context.Background()) },
			func() { _ = s.AwaitRunning(ctx) },
			func() { s.StopAsync() },
			func() { s.StopAsync(); _ = s.FailureCase(); _ = s.State() },
			func() { _ = s.AwaitTerminated(ctx) },
			func() { r := s.AddListener(nopListener{&calls}); r() },
			func() { remove() },
		} {
			wg.Add(1)
			go func(fn func()) { defer wg.Done(); fn() }(fn)
		}
		wg.Wait()
		s.StopAsync()
		if st := s.State(); st != services.New {
			if err := s.AwaitTerminated(ctx); err != nil && ctx.Err() != nil {
				rep.Violate("race:C17:hang", fmt.Sprintf("service %d did not reach a terminal state within 5 s (state %v)", k, s.State()), nil)
			}
		}
		cancel()
		rep.Eval(1)
	}
	for k := 0; k < n/5; k++ {
		var svcs []services.Service
		for j := 0; j < 3; j++ {
			svcs = append(svcs, mkService(k*3+j))
		}
		m, err := services.NewManager(svcs...)
		if err != nil {
			t.Fatal(err)
		}
		m.AddListener(nopListener{&calls})
		ctx, cancel := context.WithTimeout(context.Background(), 5*time.Second)
		var wg sync.WaitGroup
		for _, fn := range []func(){
			func() { _ = m.StartAsync(context.Background()) },
			func() { _ = m.AwaitHealthy(ctx) },
			func() { m.StopAsync() },
			func() { _ = m.AwaitStopped(ctx); _ = m.ServicesByState() },
			func() { _ = m.IsHealthy(); _ = m.IsStopped(); _ = m.ServicesByState() },
		} {
			wg.Add(1)
			go func(fn func()) { defer wg.Done(); fn() }(fn)
		}
		wg.Wait()
		m.StopAsync()
		if err := m.AwaitStopped(ctx); err != nil && ctx.Err() != nil {
			// a manager that was never started (StopAsync won the race before StartAsync) stays as it is: not a hang
			if m.IsStopped() {
				rep.Violate("race:C17:manager-hang", fmt.Sprintf("manager %d reports stopped but AwaitStopped did not return", k), nil)
			}
		}
		cancel()
		rep.Eval(1)
	}
	finish(t, rep, fmt.Sprintf("%d services (basic / idle / timer; start, run and stop failing in some) each hit concurrently by StartAsync, AwaitRunning, two StopAsync, AwaitTerminated, listener add/remove; %d managers of 3 such services with StartAsync / AwaitHealthy / StopAsync / AwaitStopped / state queries in parallel", n, n/5))
}

func TestRaceC18(t *testing.T) {
	rep := ev.NewReport("C18", "race-audit")
	n := rounds(60, 400)
	for k := 0; k < n; k++ {
		mm := modules.NewManager(log.NewNopLogger())
		names := []string{"store", "cache", "query", "api", "app"}
		for i, name := range names {
			i := i
			mm.RegisterModule(name, func() (services.Service, error) {
				if i == 1 && k%3 == 0 {
					return nil, nil // a module without a service
				}
				return mkService(k*5 + i), nil
			})
		}
		_ = mm.AddDependency("cache", "store")
		_ = mm.AddDependency("query", "cache", "store")
		_ = mm.AddDependency("api", "store")
		_ = mm.AddDependency("app", "api", "query")
		svcMap, err := mm.InitModuleServices("app")
		if err != nil {
			t.Fatal(err)
		}
		var svcs []services.Service
		for _, s := range svcMap {
			svcs = append(svcs, s)
		}
		m, err := services.NewManager(svcs...)
		if err != nil {
			t.Fatal(err)
		}
		ctx, cancel := context.WithTimeout(context.Background(), 5*time.Second)
		_ = m.StartAsync(context.Background())
		var wg sync.WaitGroup
		wg.Add(2)
		go func() { defer wg.Done(); _ = m.AwaitHealthy(ctx) }()
		go func() { defer wg.Done(); time.Sleep(time.Duration(k%5) * 50 * time.Microsecond); m.StopAsync() }()
		wg.Wait()
		if err := m.AwaitStopped(ctx); err != nil && ctx.Err() != nil {
			rep.Violate("race:C18:hang", fmt.Sprintf("module services of round %d did not stop within 5 s: %v", k, m.ServicesByState()), nil)
		}
		cancel()
		rep.Eval(1)
	}
	finish(t, rep, fmt.Sprintf("%d rounds: 5 modules in a diamond-with-shortcut graph (some without a service, some failing), their wrapped services started through a services.Manager and stopped at a varying moment", n))
}

// ---- C08 / C15: lifecyclers on a shared store, short periods ----

func TestRaceC08(t *testing.T) {
	rep := ev.NewReport("C08", "race-audit")
	n := rounds(3, 12)
	for k := 0; k < n; k++ {
		store, closer := consul.NewInMemoryClientWithConfig(ring.GetCodec(), consul.Config{MaxCasRetries: 50}, log.NewNopLogger(), nil)
		var svcs []services.Service
		var fulls []*ring.Lifecycler
		for i := 0; i < 2; i++ {
			cfg := ring.LifecyclerConfig{NumTokens: 4, HeartbeatPeriod: 2 * time.Millisecond, HeartbeatTimeout: time.Minute, ObservePeriod: time.Millisecond, JoinAfter: time.Millisecond,
				Addr: "10.0.0.1", Port: 1, ID: fmt.Sprintf("full-%d", i), Zone: "z", UnregisterOnShutdown: i == 0, MinReadyDuration: 0, FinalSleep: 0}
			cfg.RingConfig.KVStore.Mock = store
			cfg.RingConfig.HeartbeatTimeout = time.Minute
			cfg.RingConfig.ReplicationFactor = 1
			l, err := ring.NewLifecycler(cfg, nil, "ring", "ring", false, log.NewNopLogger(), nil)
			if err != nil {
				t.Fatal(err)
			}
			fulls = append(fulls, l)
			svcs = append(svcs, l)
		}
		bcfg := ring.BasicLifecyclerConfig{ID: "basic", Addr: "addr-basic", Zone: "z", HeartbeatPeriod: 2 * time.Millisecond, HeartbeatTimeout: time.Minute, TokensObservePeriod: time.Millisecond, NumTokens: 4}
		var d ring.BasicLifecyclerDelegate = ring.NewInstanceRegisterDelegate(ring.ACTIVE, 4)
		d = ring.NewLeaveOnStoppingDelegate(d, log.NewNopLogger())
		d = ring.NewAutoForgetDelegate(time.Hour, d, log.NewNopLogger())
		bl, err := ring.NewBasicLifecycler(bcfg, "ring", "ring", store, d, log.NewNopLogger(), nil)
		if err != nil {
			t.Fatal(err)
		}
		svcs = append(svcs, bl)
		ctx, cancel := context.WithTimeout(context.Background(), 10*time.Second)
		for _, s := range svcs {
			_ = s.StartAsync(context.Background())
		}
		var wg sync.WaitGroup
		stop := make(chan struct{})
		for _, l := range fulls {
			wg.Add(1)
			go func(l *ring.Lifecycler) {
				defer wg.Done()
				for i := 0; ; i++ {
					select {
					case <-stop:
						return
					default:
					}
					_ = l.CheckReady(ctx)
					_ = l.GetState()
					_ = l.HealthyInstancesCount() + l.ZonesCount()
					if i%10 == 5 {
						_ = l.ChangeReadOnlyState(ctx, i%20 == 5)
					}
					time.Sleep(300 * time.Microsecond)
					rep.Eval(1)
				}
			}(l)
		}
		wg.Add(1)
		go func() {
			defer wg.Done()
			for {
				select {
				case <-stop:
					return
				default:
				}
				_ = bl.GetState()
				_ = bl.GetTokens()
				_ = bl.IsRegistered()
				time.Sleep(300 * time.Microsecond)
			}
		}()
		time.Sleep(40 * time.Millisecond)
		close(stop)
		wg.Wait()
		for _, s := range svcs {
			s.StopAsync()
		}
		for _, s := range svcs {
			if err := s.AwaitTerminated(ctx); err != nil && ctx.Err() != nil {
				rep.Violate("race:C08:hang", "a lifecycler did not terminate within 10 s", nil)
			}
		}
		cancel()
		_ = closer.Close()
	}
	finish(t, rep, fmt.Sprintf("%d rounds: 2 full lifecyclers and 1 basic lifecycler (register, leave-on-stopping, auto-forget delegates) on one in-memory store with 2 ms heartbeats for 40 ms, polled concurrently (CheckReady, state, counters, read-only toggles), then stopped", n))
}

func TestRaceC15(t *testing.T) {
	rep := ev.NewReport("C15", "race-audit")
	n := rounds(3, 12)
	for k := 0; k < n; k++ {
		store, closer := consul.NewInMemoryClientWithConfig(ring.GetPartitionRingCodec(), consul.Config{MaxCasRetries: 50}, log.NewNopLogger(), nil)
		var svcs []services.Service
		for i := 0; i < 2; i++ {
			cfg := ring.PartitionInstanceLifecyclerConfig{PartitionID: int32(i), InstanceID: fmt.Sprintf("ing-%d", i), WaitOwnersCountOnPending: 1, WaitOwnersDurationOnPending: 2 * time.Millisecond,
				DeleteInactivePartitionAfterDuration: 20 * time.Millisecond, PollingInterval: 2 * time.Millisecond}
			l := ring.NewPartitionInstanceLifecycler(cfg, "pring", "pring", store, log.NewNopLogger(), nil)
			svcs = append(svcs, l)
		}
		w := ring.NewPartitionRingWatcher("pring", "pring", store, log.NewNopLogger(), nil)
		svcs = append(svcs, w)
		ctx, cancel := context.WithTimeout(context.Background(), 10*time.Second)
		for _, s := range svcs {
			if err := services.StartAndAwaitRunning(ctx, s); err != nil {
				t.Fatal(err)
			}
		}
		ed := ring.NewPartitionRingEditor("pring", store)
		var wg sync.WaitGroup
		stop := make(chan struct{})
		wg.Add(2)
		go func() {
			defer wg.Done()
			for i := 0; ; i++ {
				select {
				case <-stop:
					return
				default:
				}
				st := ring.PartitionInactive
				if i%2 == 0 {
					st = ring.PartitionActive
				}
				_ = ed.ChangePartitionState(ctx, 1, st)
				_ = ed.SetPartitionStateChangeLock(ctx, 0, i%3 == 0)
				time.Sleep(time.Millisecond)
			}
		}()
		go func() {
			defer wg.Done()
			for i := 0; ; i++ {
				select {
				case <-stop:
					return
				default:
				}
				pr := w.PartitionRing()
				_, _ = pr.ActivePartitionForKey(uint32(i) * 7919)
				_, _ = pr.ShuffleShard("t", 1)
				_, _ = pr.ShuffleShardWithLookback("t", 1, time.Hour, time.Now())
				_ = pr.PartitionsCount() + pr.ActivePartitionsCount()
				rep.Eval(1)
				time.Sleep(200 * time.Microsecond)
			}
		}()
		time.Sleep(40 * time.Millisecond)
		close(stop)
		wg.Wait()
		for _, s := range svcs {
			s.StopAsync()
		}
		for _, s := range svcs {
			if err := s.AwaitTerminated(ctx); err != nil && ctx.Err() != nil {
				rep.Violate("race:C15:hang", "a partition lifecycler / watcher did not terminate within 10 s", nil)
			}
		}
		cancel()
		_ = closer.Close()
	}
	finish(t, rep, fmt.Sprintf("%d rounds: 2 partition instance lifecyclers (polling 2 ms), a partition ring watcher with readers (routing, shards with and without look-back) and an editor toggling states and locks for 40 ms", n))
}

// ---- C16 / C19: generators and cache wrappers used from several goroutines ----

func TestRaceC16(t *testing.T) {
	rep := ev.NewReport("C16", "race-audit")
	g := ring.NewRandomTokenGenerator()
	n := rounds(200, 2000)
	var wg sync.WaitGroup
	for w := 0; w < 4; w++ {
		wg.Add(1)
		go func() {
			defer wg.Done()
			taken := []uint32{1, 2, 3}
			for k := 0; k < n; k++ {
				tk := g.GenerateTokens(8, taken)
				for i := 1; i < len(tk); i++ {
					if tk[i-1] >= tk[i] {
						rep.Violate("race:C16:unsorted", fmt.Sprintf("concurrent GenerateTokens returned %v", tk), nil)
					}
				}
				rep.Eval(1)
			}
		}()
	}
	wg.Wait()
	finish(t, rep, fmt.Sprintf("one RandomTokenGenerator shared by 4 goroutines × %d GenerateTokens calls", n))
}

func TestRaceC19(t *testing.T) {
	rep := ev.NewReport("C19", "race-audit")
	backend := cache.NewMockCache()
	l, err := cache.WrapWithLRUCache(backend, "race", nil, 8, time.Second, log.NewNopLogger())
	if err != nil {
		t.Fatal(err)
	}
	c := cache.NewVersioned(cache.NewCompression(cache.CompressionConfig{Compression: "snappy"}, l, log.NewNopLogger()), 3, log.NewNopLogger())
	n := rounds(300, 3000)
	var wg sync.WaitGroup
	for w := 0; w < 4; w++ {
		wg.Add(1)
		go func(w int) {
			defer wg.Done()
			ctx := context.Background()
			for k := 0; k < n; k++ {
				key := fmt.Sprintf("k%d", (w+k)%12)
				switch k % 5 {
				case 0:
					_ = c.Set(ctx, key, []byte(key), time.Second)
				case 1:
					c.SetMultiAsync(map[string][]byte{key: []byte(key), key + "x": []byte("v")}, time.Second)
				case 2:
					_ = c.Add(ctx, key, []byte(key), time.Second)
				case 3:
					_ = c.Delete(ctx, key)
				}
				for kk, v := range c.GetMulti(ctx, []string{key, key + "x"}) {
					if kk == key && string(v) != key {
						rep.Violate("race:C19:value", fmt.Sprintf("key %q returned %q, every writer stores the key itself", kk, v), nil)
					}
				}
				rep.Eval(1)
			}
		}(w)
	}
	wg.Wait()
	finish(t, rep, fmt.Sprintf("versioned(snappy(lru(8))) over the in-process backend shared by 4 goroutines × %d mixed set / multi-set / add / delete / get-multi operations on 12 keys", n))
}
