package lifecycle

import (
	"context"
	"fmt"
	"sort"
	"strings"
	"testing"
	"testing/synctest"
	"time"

	"github.com/grafana/dskit/ring"
	"github.com/grafana/dskit/services"

	"verif/ev"
	"verif/sched"
	"verif/shim/vos"
)

// C09 — a lifecycler recovers its identity after a crash at any point or KV faults (engine E4:
// crash-point and fault-window enumeration on the real lifecyclers over the recording store).

const tokensPath = "/data/tokens"

type c09scenario struct {
	name      string
	victim    lcSpec
	stopAt    time.Duration // 0 = never: graceful stop request for the victim
	fileStart []uint32      // tokens file present before the victim starts
	// restartTokens: the process that replaces the crashed one is configured with this many tokens (0 = unchanged),
	// so that an entry found in the ring has to be topped up or trimmed
	restartTokens int
	// claim: before the restart another instance takes over the dead instance's tokens (Desc.ClaimTokens, as a
	// hand-over does), leaving its entry without tokens
	claim bool
}

type fault struct {
	kind string // none | crash-before | crash-after | cas-window | wipe-after
	k    int    // commit index (crash, wipe) or first failing CAS attempt
	b    int    // window end (exclusive)
}

func (f fault) String() string {
	switch f.kind {
	case "cas-window":
		return fmt.Sprintf("CAS attempts %d..%d of the lifecycler fail", f.k, f.b-1)
	case "none":
		return "no fault"
	}
	return fmt.Sprintf("%s commit %d", f.kind, f.k)
}

type c09result struct {
	commits        int
	activeCommit   int // index of the commit that first published the lifecycler as ACTIVE
	activeAttempts int // number of CAS attempts it had made by then
	viol           string
	key            string
	outcome        string
	trace          []string
}

func tokensOfFile() ([]uint32, bool) {
	t, err := ring.LoadTokensFromFile(tokensPath)
	if err != nil {
		return nil, false
	}
	return t, true
}

func runC09(t *testing.T, sc c09scenario, f fault, chs ...*sched.Chooser) (res c09result) {
	synctest.Test(t, func(t *testing.T) {
		vos.Reset()
		if sc.fileStart != nil {
			if err := ring.Tokens(sc.fileStart).StoreToFile(tokensPath); err != nil {
				panic(err)
			}
		}
		ch := sched.NewChooser(nil) // quick tier: the deterministic default schedule; the enumeration is over fault points
		if len(chs) > 0 {
			ch = chs[0] // thorough tier: every schedule within one departure from it, per fault point
		}
		e := sched.NewExec(ch)
		e.DelayBounded = true
		e.MaxSteps = 20000
		e.Quantum = quantum
		t0 := time.Now()
		elapsed := func() time.Duration { return time.Since(t0) }
		st := NewStore()
		st.SetCodec(ringKey, ring.GetCodec())
		vsp := sc.victim
		vsp.id, vsp.tag = "v", "v1"
		by := lcSpec{id: "b", tag: "b"}
		victim := buildLifecycler(st, vsp)
		bystander := buildLifecycler(st, by)
		horizon := 14 * time.Second
		e.ClockOn = func() bool { return elapsed() < horizon }
		crashed := false
		armed := true // fault hooks fire only while the explored part of the execution runs (not when the scheduler is switched off and parked store operations complete natively)
		activeCommit, activeAttempts := 0, 0
		nv := 0
		st.Observe = func(w Write) {
			if w.Writer != "v1" {
				return
			}
			nv++
			if ent, ok := descOf(w.Out).Ingesters["v"]; ok && ent.State == ring.ACTIVE && activeCommit == 0 {
				activeCommit, activeAttempts = nv, st.casCount["v1"]
			}
		}
		var crashEntry *ring.InstanceDesc
		var crashFile []uint32
		crashFileOK := false
		var wipedAt time.Time
		var oldReg int64
		var wipedTokens []uint32
		var wipedState ring.InstanceState
		die := func() {
			crashed = true
			st.mu.Lock()
			st.Dead["v1"] = true
			cur := descOf(st.decode(ringKey))
			st.mu.Unlock()
			if ent, ok := cur.Ingesters["v"]; ok {
				c := ent
				crashEntry = &c
			}
			crashFile, crashFileOK = tokensOfFile()
		}
		switch f.kind {
		case "crash-before":
			st.BeforeCommit = func(w string, k int) bool {
				if armed && w == "v1" && k == f.k && !crashed {
					// f has run (its in-memory and tokens-file side effects happened) but the store is unchanged
					st.Dead["v1"] = true
					crashed = true
					cur := descOf(st.decode(ringKey))
					if ent, ok := cur.Ingesters["v"]; ok {
						c := ent
						crashEntry = &c
					}
					crashFile, crashFileOK = tokensOfFile()
					return false
				}
				return true
			}
		case "crash-after":
			st.OnCommit = func(w Write, k int) {
				if armed && w.Writer == "v1" && k == f.k && !crashed {
					die()
				}
			}
		case "wipe-after":
			st.OnCommit = func(w Write, k int) {
				if armed && w.Writer == "v1" && k == f.k && wipedAt.IsZero() {
					if ent, ok := descOf(w.Out).Ingesters["v"]; ok {
						oldReg = ent.RegisteredTimestamp
						wipedTokens, wipedState = append([]uint32(nil), ent.Tokens...), ent.State
					}
					st.Wipe(ringKey)
					wipedAt = time.Now()
				}
			}
		case "cas-window":
			st.FailCAS["v1"] = func(n int) bool { return n >= f.k && n < f.b }
		}
		e.Enable()
		e.Go("s-start:b", func() { _ = bystander.svc.StartAsync(context.Background()) })
		e.Go("s-start:v", func() { _ = victim.svc.StartAsync(context.Background()) })
		if sc.stopAt > 0 {
			e.Go("x-stop:v", func() {
				sched.YieldUntil("at", func() bool { return elapsed() >= sc.stopAt })
				victim.svc.StopAsync()
			})
		}
		e.Run()
		st.mu.Lock()
		res.commits = st.commits["v1"]
		st.mu.Unlock()
		res.activeCommit, res.activeAttempts = activeCommit, activeAttempts
		fail := func(k, format string, a ...any) {
			if res.viol == "" {
				res.viol, res.key = fmt.Sprintf(format, a...), k
			}
		}
		restarted := victim
		restart := func() {
			// the dead process does nothing more; a new process with the same identity starts on what survived
			victim.svc.StopAsync()
			writesAtCrash := len(st.Writes)
			fileLogAtCrash := len(vos.LogCopy())
			_ = writesAtCrash
			_ = fileLogAtCrash
			vsp2 := sc.victim
			vsp2.id, vsp2.tag, vsp2.genStart = "v", "v2", 9
			vsp2.numTokens = sc.restartTokens
			if sc.claim && crashEntry != nil && crashEntry.State == ring.LEAVING { // a hand-over happens while the instance is leaving
				d := descOf(st.Peek(ringKey))
				d.ClaimTokens("v", "b")
				st.Put("claimer", ringKey, d)
				c := d.Ingesters["v"]
				crashEntry = &c
			}
			restarted = buildLifecycler(st, vsp2)
			horizon = elapsed() + 20*time.Second
			e.Go("s-restart:v", func() { _ = restarted.svc.StartAsync(context.Background()) })
			e.Run()
			for _, w := range st.Writes[writesAtCrash:] {
				if w.Writer == "v1" {
					fail("zombie-write", "HARNESS: the crashed process wrote to the store after its death")
				}
			}
		}
		if crashed {
			restart()
		} else if f.kind != "none" && sc.stopAt == 0 {
			horizon = elapsed() + 16*time.Second
			e.Run()
			if crashed { // on a schedule other than the default one the fault point may be reached only now
				restart()
			}
		}
		log := e.CanonLog()
		res.trace = append(append([]string{}, e.Trace...), log...)
		armed = false
		e.Disable()
		synctest.Wait()
		// ---- oracle ----
		cur := descOf(st.Peek(ringKey))
		ent, ok := cur.Ingesters["v"]
		bent := cur.Ingesters["b"]
		stoppedGracefully := sc.stopAt > 0 && !crashed
		numTokens := numTokens
		if crashed && sc.restartTokens > 0 {
			// an entry found ACTIVE is taken over as it is; every other restart path ends with the configured count
			numTokens = sc.restartTokens
			if crashEntry != nil && crashEntry.State == ring.ACTIVE {
				numTokens = len(crashEntry.Tokens)
			}
		}
		switch {
		case stoppedGracefully:
			// a graceful stop: the entry is gone (unregister) or LEAVING with its tokens
			if sc.victim.unregister && ok && f.kind == "none" {
				fail("not-unregistered", "after a graceful stop with unregistering the entry is still there: %s", show(ent, ok))
			}
			if !sc.victim.unregister && f.kind == "wipe-after" && !wipedAt.IsZero() && sc.victim.finalSleep > 0 &&
				wipedAt.Before(t0.Add(sc.stopAt+hbPeriod)) && hbPeriod < sc.victim.finalSleep {
				// (the obligation exists only if a write of the lifecycler — the LEAVING state change or the heartbeat tick
				// of its shutdown phase, one period after the stop request — still follows the wipe)
				// the ring was lost while the instance was ACTIVE or LEAVING and it kept heartbeating for a while: it has
				// re-registered itself with what it remembered, and leaves that entry behind (LEAVING, same tokens)
				if !ok || ent.State != ring.LEAVING || fmt.Sprint(ent.Tokens) != fmt.Sprint(wipedTokens) {
					fail("not-reregistered-while-leaving", "%s, %s: the ring was wiped when the entry was %s %v; after the (slow) graceful leave the entry is %s, want LEAVING with the same tokens", sc.name, f, wipedState, wipedTokens, show(ent, ok))
				}
			}
		default:
			if !ok || ent.State != ring.ACTIVE || len(ent.Tokens) != numTokens {
				fail("not-recovered", "%s, %s: the lifecycler did not get back to ACTIVE with %d tokens; its entry is %s", sc.name, f, numTokens, show(ent, ok))
			} else {
				if crashed {
					var durable []uint32
					switch {
					case crashEntry != nil && len(crashEntry.Tokens) > 0:
						durable = crashEntry.Tokens
					case crashEntry == nil && sc.victim.tokensFile != "" && crashFileOK:
						// the file speaks only when the ring has no entry for the instance: tokens written to the file by
						// a join whose ring write never committed were never the instance's tokens
						durable = crashFile
					}
					have := map[uint32]bool{}
					for _, tk := range ent.Tokens {
						have[tk] = true
					}
					for _, tk := range durable {
						if !have[tk] && len(durable) <= numTokens {
							fail("tokens-lost", "%s, %s: token %d recorded before the crash (ring entry %v / file %v) was not kept: now %v", sc.name, f, tk, crashEntry, crashFile, ent.Tokens)
						}
					}
					if crashEntry != nil && crashEntry.RegisteredTimestamp != 0 && ent.RegisteredTimestamp != crashEntry.RegisteredTimestamp {
						fail("registration-lost", "%s, %s: registration time %d recorded in the ring before the crash became %d", sc.name, f, crashEntry.RegisteredTimestamp, ent.RegisteredTimestamp)
					}
				}
				if f.kind == "wipe-after" && !wipedAt.IsZero() && oldReg != 0 && ent.RegisteredTimestamp < wipedAt.Unix() {
					fail("registration-stale", "%s, %s: the ring was wiped at %d but the re-registered entry carries registration time %d (must be fresh)", sc.name, f, wipedAt.Unix(), ent.RegisteredTimestamp)
				}
				for _, a := range ent.Tokens {
					for _, b := range bent.Tokens {
						if a == b && f.kind != "wipe-after" { // after a wipe both re-register what they remember
							fail("token-collision", "%s, %s: token %d is held by both the recovered instance and the bystander", sc.name, f, a)
						}
					}
				}
			}
			if bst, bok := cur.Ingesters["b"]; !bok || bst.State != ring.ACTIVE {
				fail("bystander", "%s, %s: the bystander's entry is %s", sc.name, f, show(bst, bok))
			}
		}
		if k, w := monitorTags(st, t0, map[string]string{"v1": "v", "v2": "v", "b": "b"}); k != "" {
			fail(k, "%s, %s: %s", sc.name, f, w)
		}
		if sc.victim.tokensFile != "" {
			if tf, ok := tokensOfFile(); ok && len(tf) > 0 && res.viol == "" && !stoppedGracefully {
				if fmt.Sprint([]uint32(tf)) != fmt.Sprint(ent.Tokens) {
					fail("file-mismatch", "%s, %s: tokens file holds %v, ring entry %v", sc.name, f, tf, ent.Tokens)
				}
			}
		}
		res.outcome = fmt.Sprintf("%s|%s", show(ent, ok), show(bent, true))
		if crashed && res.viol == "" && ok && !stoppedGracefully && !sc.victim.basic {
			// What the recovered process REMEMBERS must be what it registered: the ring key is lost once more and the
			// running lifecycler re-registers itself from memory at a later heartbeat.
			before := append([]uint32(nil), ent.Tokens...)
			e.Enable()
			st.Wipe(ringKey)
			horizon = elapsed() + 12*time.Second
			e.Run()
			e.Disable()
			synctest.Wait()
			cur2 := descOf(st.Peek(ringKey))
			ent2, ok2 := cur2.Ingesters["v"]
			if !ok2 || ent2.State != ring.ACTIVE || fmt.Sprint(ent2.Tokens) != fmt.Sprint(before) {
				fail("remembered-differs", "%s, %s: after its recovery the lifecycler had registered tokens %v; when the ring key was lost afterwards it re-registered itself as %s", sc.name, f, before, show(ent2, ok2))
			}
			if tf, okf := tokensOfFile(); sc.victim.tokensFile != "" && okf && len(tf) > 0 && fmt.Sprint([]uint32(tf)) != fmt.Sprint(before) {
				fail("file-mismatch", "%s, %s: tokens file holds %v, the recovered lifecycler had registered %v", sc.name, f, tf, before)
			}
		}
		restarted.svc.StopAsync()
		victim.svc.StopAsync()
		bystander.svc.StopAsync()
		e.Teardown()
		for i := 0; i < 200; i++ {
			done := true
			for _, s := range []services.Service{restarted.svc, victim.svc, bystander.svc} {
				if st := s.State(); st != services.Terminated && st != services.Failed && st != services.New {
					done = false
				}
			}
			if done {
				break
			}
			time.Sleep(time.Second)
		}
	})
	return
}

// monitorTags runs the C08 monitor with writer tags mapped to instance ids.
func monitorTags(st *Store, t0 time.Time, tags map[string]string) (string, string) {
	sc := scenario{}
	seen := map[string]bool{}
	orig := st.Writes
	var mapped []Write
	for _, w := range orig {
		if id, ok := tags[w.Writer]; ok {
			w.Writer = id
			if !seen[id] {
				seen[id] = true
				sc.lcs = append(sc.lcs, lcSpec{id: id, tokensFile: "x"}) // tokens may be inherited: skip the fresh-choice clause
			}
		}
		mapped = append(mapped, w)
	}
	st.Writes = mapped
	k, w := monitor(sc, st, t0)
	st.Writes = orig
	if k == "token-count" {
		return "", "" // a restarted process may top up / trim inherited tokens over several writes
	}
	return k, w
}

func scenariosC09() []c09scenario {
	return []c09scenario{
		{name: "fresh-join", victim: lcSpec{joinAfter: 1500 * time.Millisecond}},
		{name: "join-with-observe", victim: lcSpec{joinAfter: 1500 * time.Millisecond, observe: 2 * time.Second}},
		// heartbeat period shorter than join-after: a process restarted while JOINING heartbeats as PENDING before it joins again
		{name: "join-with-observe-fast-heartbeat", victim: lcSpec{joinAfter: 2750 * time.Millisecond, observe: 1750 * time.Millisecond, heartbeat: 2 * time.Second}}, // periods chosen so that no two timers of the loop fall due together
		{name: "join-with-tokens-file", victim: lcSpec{joinAfter: 1500 * time.Millisecond, tokensFile: tokensPath}},
		{name: "restart-from-tokens-file", victim: lcSpec{joinAfter: 1500 * time.Millisecond, tokensFile: tokensPath}, fileStart: []uint32{11, 12}},
		{name: "leave-unregister", victim: lcSpec{unregister: true}, stopAt: 6500 * time.Millisecond},
		{name: "leave-keep", victim: lcSpec{}, stopAt: 6500 * time.Millisecond},
		{name: "leave-keep-restart-more-tokens", victim: lcSpec{tokensFile: tokensPath}, stopAt: 6500 * time.Millisecond, restartTokens: 3},
		{name: "leave-keep-restart-fewer-tokens", victim: lcSpec{}, stopAt: 6500 * time.Millisecond, restartTokens: 1},
		{name: "join-restart-more-tokens", victim: lcSpec{joinAfter: 1500 * time.Millisecond}, restartTokens: 3},
		{name: "leave-keep-tokens-claimed", victim: lcSpec{tokensFile: tokensPath}, stopAt: 6500 * time.Millisecond, claim: true},
		// a slow leave (6 s of heartbeating as LEAVING): the ring may be lost while the instance is leaving
		{name: "leave-keep-slow", victim: lcSpec{finalSleep: 6 * time.Second}, stopAt: 6500 * time.Millisecond},
		{name: "basic-join", victim: lcSpec{basic: true, tokensFile: tokensPath}},
		{name: "basic-restart-from-file", victim: lcSpec{basic: true, tokensFile: tokensPath}, fileStart: []uint32{11, 12}},
		{name: "basic-leave-unregister", victim: lcSpec{basic: true, unregister: true}, stopAt: 6500 * time.Millisecond},
	}
}

func TestC09Crash(t *testing.T) {
	rep := ev.NewReport("C09", "crash-and-faults")
	scs := scenariosC09()
	var names []string
	for _, s := range scs {
		names = append(names, s.name)
	}
	rep.Bound = fmt.Sprintf("scenarios %v (full Lifecycler and BasicLifecycler + TokensPersistency, always next to a bystander lifecycler holding tokens): a crash before and after the commit of EVERY store write the lifecycler performs followed by a restart with the same identity on the surviving store and tokens file; every window [a,b) of failing CAS attempts; a wipe of the ring key after every commit (also while the instance is LEAVING, in a leave that takes 6 s); restarts with a larger / smaller configured token count; the dead instance's tokens claimed by the bystander before the restart; after every recovery the ring key is lost once more", names)
	rep.Rule = "pass 0 runs fault-free and learns the number N of commits; then one real execution per fault point under the virtual clock; oracle: back to ACTIVE with the full token count, tokens recorded before the crash (ring entry, else tokens file) kept, registration time kept if the entry survived and fresh after a wipe, no token shared with the bystander, bystander untouched, every write still passes the C08 monitor, tokens file equals the ring entry, and what the recovered process re-registers from memory after a later loss of the ring equals what it had registered; distinct_nontrivial = distinct (scenario, fault) whose run differs from the fault-free one"
	deadline := ev.Deadline(8 * time.Minute)
	si, sn := ev.Shard()
	for _, sc := range scs {
		base := runC09(t, sc, fault{kind: "none"})
		if si == 0 {
			rep.Eval(1)
			rep.Trans(1)
			rep.State(1)
		}
		if base.viol != "" {
			rep.Violate("C09:"+sc.name+":none:"+base.key, base.viol, nil)
			continue
		}
		var faults []fault
		for k := 1; k <= base.commits; k++ {
			faults = append(faults, fault{kind: "crash-before", k: k}, fault{kind: "crash-after", k: k})
			if base.activeCommit > 0 && k >= base.activeCommit {
				// the property speaks of the RUNNING lifecycler: the ring is lost once it is ACTIVE
				faults = append(faults, fault{kind: "wipe-after", k: k})
			}
		}
		// store faults hit the running (ACTIVE) lifecycler: every window of its later CAS attempts (and of the state change that publishes ACTIVE after an observe period)
		// (a failing CAS during the initial registration or the join makes the service fail by design)
		if base.activeAttempts > 0 {
			first := base.activeAttempts + 1
			if !sc.victim.basic && sc.victim.observe > 0 {
				// with an observe period the write that publishes ACTIVE is a plain state change whose failure the
				// lifecycler survives (it stays ACTIVE locally and the next heartbeat publishes it): a fault may hit it too
				first = base.activeAttempts
			}
			for a := first; a <= base.activeAttempts+4; a++ {
				for b := a + 1; b <= a+4; b++ {
					faults = append(faults, fault{kind: "cas-window", k: a, b: b})
				}
			}
		}
		for fi, f := range faults {
			if ev.WallNow().After(deadline) || rep.NumViolations() >= 10 {
				rep.NotExhaustive("deadline or violation cap")
				break
			}
			if sc.stopAt > 0 && (f.kind == "cas-window" || f.kind == "wipe-after" && sc.victim.finalSleep == 0) {
				continue
			}
			if ev.Thorough() {
				// every schedule within two departures from the default order (store commit order of victim, bystander and
				// restarted process, timing of the stop request and of the clock), for this fault point
				if fi%sn != si {
					continue
				}
				x := &sched.Explorer{Bound: 2, Report: rep, Deadline: deadline, Scenario: sc.name + "|" + f.String(), NoShard: true, AuditN: 200,
					Run: func(c *sched.Chooser) sched.Result {
						r := runC09(t, sc, f, c)
						return sched.Result{Violation: r.viol, Key: r.key, Outcome: r.outcome, Trace: r.trace}
					}}
				if !x.ExploreOrReplay() {
					rep.NotExhaustive("deadline or violation cap at " + sc.name + " / " + f.String())
					break
				}
				continue
			}
			if si != 0 {
				continue
			}
			r := runC09(t, sc, f)
			rep.Eval(1)
			rep.Trans(int64(r.commits))
			rep.State(1)
			if r.outcome != base.outcome {
				rep.Distinct(sc.name + "|" + f.String())
			}
			if r.viol != "" {
				rep.Violate("C09:"+sc.name+":"+f.String()+":"+r.key, r.viol, map[string]any{"scenario": sc.name, "fault": f.String()})
			}
		}
		rep.Sample(fmt.Sprintf("%s: %d commits fault-free, %d fault points", sc.name, base.commits, len(faults)))
	}
	rep.Trace(rep.Evaluations)
	if err := rep.Write(); err != nil {
		t.Fatal(err)
	}
}

// TestC09TokensFile: every crash image of a tokens-file rewrite (every prefix of the recorded file
// operations, the last write torn at every byte) must parse to the old or the new token list.
func TestC09TokensFile(t *testing.T) {
	rep := ev.NewReport("C09", "tokens-file")
	rep.Bound = "old token lists {absent, [1 2], [4294967295]} × new token lists {[3 4], [], [7 8 9 10]}; every prefix of the recorded create/write/close/rename log, the in-flight write torn at every byte offset"
	rep.Rule = "ring.Tokens.StoreToFile on the recording in-memory file system; for each crash image LoadTokensFromFile returns the old list, the new list or file-not-found — never a parse error or a third value (a leftover .tmp is allowed); a further StoreToFile on top of every crash image (shorter and longer lists) must leave exactly that list; distinct_nontrivial = crash images taken in the middle of a write"
	olds := [][]uint32{nil, {1, 2}, {4294967295}}
	news := [][]uint32{{3, 4}, {}, {7, 8, 9, 10}}
	for _, o := range olds {
		for _, n := range news {
			vos.Reset()
			if o != nil {
				if err := ring.Tokens(o).StoreToFile(tokensPath); err != nil {
					t.Fatal(err)
				}
			}
			base := vos.Snapshot()
			vos.Restore(base)
			if err := ring.Tokens(n).StoreToFile(tokensPath); err != nil {
				t.Fatal(err)
			}
			ops := vos.LogCopy()
			check := func(img map[string][]byte, what string) {
				vos.Restore(img)
				got, err := ring.LoadTokensFromFile(tokensPath)
				rep.Eval(1)
				rep.Trans(1)
				okOld := o != nil && err == nil && fmt.Sprint([]uint32(got)) == fmt.Sprint(o)
				okNew := err == nil && (fmt.Sprint([]uint32(got)) == fmt.Sprint(n) || (len(n) == 0 && len(got) == 0))
				okAbsent := o == nil && err != nil && vos.IsNotExist(err)
				if !okOld && !okNew && !okAbsent {
					rep.Violate(fmt.Sprintf("C09:tokens-file:%v->%v:%s", o, n, what), fmt.Sprintf("rewriting the tokens file from %v to %v, crash %s: loading yields (%v, %v); files %v", o, n, what, got, err, vos.Names(img)), nil)
				}
				// the restarted process writes its tokens again on whatever the crash left behind (a stale .tmp included):
				// the file must then hold exactly that list
				for _, third := range [][]uint32{{5}, {21, 22, 23, 24, 25, 26}} {
					vos.Restore(img)
					werr := ring.Tokens(third).StoreToFile(tokensPath)
					got, err := ring.LoadTokensFromFile(tokensPath)
					rep.Eval(1)
					if werr != nil || err != nil || fmt.Sprint([]uint32(got)) != fmt.Sprint(third) {
						rep.Violate(fmt.Sprintf("C09:tokens-file-rewrite:%v->%v:%s:%v", o, n, what, third), fmt.Sprintf("rewriting the tokens file from %v to %v, crash %s, then the restarted process stores %v (error %v): loading yields (%v, %v); files before the last store %v", o, n, what, third, werr, got, err, vos.Names(img)), nil)
					}
				}
			}
			for i := 0; i <= len(ops); i++ {
				check(vos.Replay(base, ops, i, -1), fmt.Sprintf("after %d of %d file operations", i, len(ops)))
				if i < len(ops) && ops[i].Kind == "write" {
					for cut := 0; cut < len(ops[i].Data); cut++ {
						check(vos.Replay(base, ops, i, cut), fmt.Sprintf("inside file operation %d (write torn after %d of %d bytes)", i, cut, len(ops[i].Data)))
						rep.Distinct(fmt.Sprintf("%v/%v/%d/%d", o, n, i, cut))
					}
				}
			}
			rep.State(1)
			var kinds []string
			for _, op := range ops {
				kinds = append(kinds, op.Kind)
			}
			rep.Sample(fmt.Sprintf("%v → %v: file operations %s", o, n, strings.Join(kinds, ",")))
		}
	}
	sort.Strings(nil)
	rep.Trace(rep.Evaluations)
	if err := rep.Write(); err != nil {
		t.Fatal(err)
	}
}
