// Package vos is an in-memory stand-in for the parts of package os that ring/tokens.go uses
// (via -overlay import rewriting). It records every mutation so that a harness can materialise
// the directory image after a crash at any point, with the last write torn at any byte.
package vos

import (
	"os"
	"sort"
	"sync"
	"syscall"
)

type Op struct {
	Kind string // create write close rename remove
	Name string
	To   string
	Data []byte
}

type fs struct {
	mu    sync.Mutex
	files map[string][]byte
	Log   []Op
}

var FS = &fs{files: map[string][]byte{}}

// Reset empties the file system and the log.
func Reset() {
	FS.mu.Lock()
	FS.files = map[string][]byte{}
	FS.Log = nil
	FS.mu.Unlock()
}

// Snapshot returns a copy of all files.
func Snapshot() map[string][]byte {
	FS.mu.Lock()
	defer FS.mu.Unlock()
	out := map[string][]byte{}
	for k, v := range FS.files {
		out[k] = append([]byte(nil), v...)
	}
	return out
}

// Restore replaces the file system content (log cleared).
func Restore(files map[string][]byte) {
	FS.mu.Lock()
	FS.files = map[string][]byte{}
	for k, v := range files {
		FS.files[k] = append([]byte(nil), v...)
	}
	FS.Log = nil
	FS.mu.Unlock()
}

// LogCopy returns the recorded operations.
func LogCopy() []Op {
	FS.mu.Lock()
	defer FS.mu.Unlock()
	return append([]Op(nil), FS.Log...)
}

// Replay materialises the image obtained by applying ops[:n] to base and then, if torn >= 0, the
// first `torn` bytes of the write ops[n] (which must be a write).
func Replay(base map[string][]byte, ops []Op, n int, torn int) map[string][]byte {
	files := map[string][]byte{}
	for k, v := range base {
		files[k] = append([]byte(nil), v...)
	}
	apply := func(o Op, limit int) {
		switch o.Kind {
		case "create":
			files[o.Name] = []byte{}
		case "write":
			d := o.Data
			if limit >= 0 && limit < len(d) {
				d = d[:limit]
			}
			files[o.Name] = append(files[o.Name], d...)
		case "rename":
			if v, ok := files[o.Name]; ok {
				files[o.To] = v
				delete(files, o.Name)
			}
		case "remove":
			delete(files, o.Name)
		}
	}
	for i := 0; i < n && i < len(ops); i++ {
		apply(ops[i], -1)
	}
	if torn >= 0 && n < len(ops) && ops[n].Kind == "write" {
		apply(ops[n], torn)
	}
	return files
}

func Names(files map[string][]byte) []string {
	var out []string
	for k := range files {
		out = append(out, k)
	}
	sort.Strings(out)
	return out
}

type File struct {
	name   string
	closed bool
}

func notExist(op, name string) error {
	return &os.PathError{Op: op, Path: name, Err: syscall.ENOENT}
}

func Create(name string) (*File, error) {
	FS.mu.Lock()
	defer FS.mu.Unlock()
	FS.files[name] = []byte{}
	FS.Log = append(FS.Log, Op{Kind: "create", Name: name})
	return &File{name: name}, nil
}

func (f *File) Name() string { return f.name }

func (f *File) Write(b []byte) (int, error) {
	FS.mu.Lock()
	defer FS.mu.Unlock()
	if f.closed {
		return 0, os.ErrClosed
	}
	FS.files[f.name] = append(FS.files[f.name], b...)
	FS.Log = append(FS.Log, Op{Kind: "write", Name: f.name, Data: append([]byte(nil), b...)})
	return len(b), nil
}

func (f *File) Close() error {
	FS.mu.Lock()
	defer FS.mu.Unlock()
	if f.closed {
		return os.ErrClosed
	}
	f.closed = true
	FS.Log = append(FS.Log, Op{Kind: "close", Name: f.name})
	return nil
}

func Rename(oldpath, newpath string) error {
	FS.mu.Lock()
	defer FS.mu.Unlock()
	v, ok := FS.files[oldpath]
	if !ok {
		return notExist("rename", oldpath)
	}
	FS.files[newpath] = v
	delete(FS.files, oldpath)
	FS.Log = append(FS.Log, Op{Kind: "rename", Name: oldpath, To: newpath})
	return nil
}

func Remove(name string) error {
	FS.mu.Lock()
	defer FS.mu.Unlock()
	if _, ok := FS.files[name]; !ok {
		return notExist("remove", name)
	}
	delete(FS.files, name)
	FS.Log = append(FS.Log, Op{Kind: "remove", Name: name})
	return nil
}

func ReadFile(name string) ([]byte, error) {
	FS.mu.Lock()
	defer FS.mu.Unlock()
	v, ok := FS.files[name]
	if !ok {
		return nil, notExist("open", name)
	}
	return append([]byte(nil), v...), nil
}

func WriteFile(name string, data []byte, _ os.FileMode) error {
	FS.mu.Lock()
	defer FS.mu.Unlock()
	FS.files[name] = append([]byte(nil), data...)
	FS.Log = append(FS.Log, Op{Kind: "create", Name: name}, Op{Kind: "write", Name: name, Data: append([]byte(nil), data...)}, Op{Kind: "close", Name: name})
	return nil
}

func IsNotExist(err error) bool { return os.IsNotExist(err) }
