// Package lifecycle holds the harness shared by C08 (a lifecycler edits only its own entry and follows
// the state machine), C09 (recovery after crashes and KV faults) and the lifecycle half of C15.
//
// Real lifecyclers run inside a synctest bubble against a harness kv.Client: an in-memory store
// whose CAS parks at a scheduler hook (so that the commit order of concurrent writers is an explorer
// choice), then applies the caller's function to a deep copy and commits atomically, recording
// (writer, before, after, virtual time). Virtual time advances only when the explorer says so.
package lifecycle

import (
	"context"
	"errors"
	"fmt"
	"sort"
	"strings"
	"sync"
	"time"

	"github.com/grafana/dskit/kv"
	"github.com/grafana/dskit/kv/codec"

	"verif/sched"
)

// Write is one committed store write.
type Write struct {
	Writer string
	Key    string
	In     interface{} // deep copy of the value before (nil if none)
	Out    interface{} // deep copy of the value after
	At     time.Time
	Step   int
}

// Store is the shared in-memory KV.
type Store struct {
	mu     sync.Mutex
	codec  map[string]codec.Codec // per key
	data   map[string][]byte
	Writes []Write
	// fault injection (C09): per writer
	FailCAS  map[string]func(n int) bool // n-th CAS attempt of that writer (1-based) fails before running f
	FailGet  map[string]func(n int) bool
	Dead     map[string]bool // every later operation of this writer fails (the process "died")
	casCount map[string]int
	getCount map[string]int
	// OnCommit is called (store unlocked) right after a commit; C09 uses it to kill the writer after commit k.
	OnCommit func(w Write, n int)
	// BeforeCommit is called after f ran, just before the commit; returning false drops the write (crash before commit).
	BeforeCommit func(writer string, n int) bool
	LastIn       map[string]interface{} // per writer: deep copy of the value its CAS function was last applied to
	Observe      func(w Write)          // called with the store locked, for bookkeeping only
	Conflicts    bool                   // offer "the first attempt conflicts and f is re-run" as an environment choice
	commits      map[string]int
}

var ErrInjected = errors.New("injected KV fault")

func NewStore() *Store {
	return &Store{codec: map[string]codec.Codec{}, data: map[string][]byte{}, FailCAS: map[string]func(int) bool{}, FailGet: map[string]func(int) bool{},
		LastIn: map[string]interface{}{}, Dead: map[string]bool{}, casCount: map[string]int{}, getCount: map[string]int{}, commits: map[string]int{}}
}

func (s *Store) SetCodec(key string, c codec.Codec) { s.codec[key] = c }

func (s *Store) decode(key string) interface{} {
	b, ok := s.data[key]
	if !ok {
		return nil
	}
	v, err := s.codec[key].Decode(b)
	if err != nil {
		panic(err)
	}
	return v
}

// Peek returns a deep copy of the current value (harness side, no hook).
func (s *Store) Peek(key string) interface{} {
	s.mu.Lock()
	defer s.mu.Unlock()
	return s.decode(key)
}

// Wipe removes a key (the backend lost the ring).
func (s *Store) Wipe(key string) {
	s.mu.Lock()
	delete(s.data, key)
	s.mu.Unlock()
}

// Put overwrites a key from the harness side (an external editor), recorded under the given writer name.
func (s *Store) Put(writer, key string, v interface{}) {
	s.mu.Lock()
	in := s.decode(key)
	b, err := s.codec[key].Encode(v)
	if err != nil {
		panic(err)
	}
	s.data[key] = b
	s.Writes = append(s.Writes, Write{Writer: writer, Key: key, In: in, Out: s.decode(key), At: time.Now()})
	s.mu.Unlock()
}

// Client returns the view of one writer.
func (s *Store) Client(writer string) kv.Client { return &view{s: s, w: writer} }

type view struct {
	s *Store
	w string
}

func (v *view) List(context.Context, string) ([]string, error) { return nil, nil }

func (v *view) Get(ctx context.Context, key string) (interface{}, error) {
	sched.SetName("kv:" + v.w)
	sched.Yield("get")
	v.s.mu.Lock()
	defer v.s.mu.Unlock()
	v.s.getCount[v.w]++
	if v.s.Dead[v.w] {
		return nil, ErrInjected
	}
	if f := v.s.FailGet[v.w]; f != nil && f(v.s.getCount[v.w]) {
		return nil, ErrInjected
	}
	return v.s.decode(key), nil
}

func (v *view) Delete(ctx context.Context, key string) error {
	sched.SetName("kv:" + v.w)
	sched.Yield("delete")
	v.s.Wipe(key)
	return nil
}

func (v *view) CAS(ctx context.Context, key string, f func(in interface{}) (out interface{}, retry bool, err error)) error {
	sched.SetName("kv:" + v.w)
	conflict := 0
	if v.s.Conflicts {
		// environment answer: 0 = the write goes through at the first attempt; 1 = the first attempt loses a
		// race (its function ran, its write is discarded) and the function is run again on the fresh value
		conflict = sched.Choose("cas", 2, true)
	} else {
		sched.Yield("cas")
	}
	if err := ctx.Err(); err != nil {
		return err
	}
	for attempt := 0; ; attempt++ {
		v.s.mu.Lock()
		v.s.casCount[v.w]++
		n := v.s.casCount[v.w]
		if v.s.Dead[v.w] {
			v.s.mu.Unlock()
			return ErrInjected
		}
		if ff := v.s.FailCAS[v.w]; ff != nil && ff(n) {
			v.s.mu.Unlock()
			return ErrInjected
		}
		in := v.s.decode(key)
		inCopy := v.s.decode(key)
		v.s.LastIn[v.w] = v.s.decode(key)
		v.s.mu.Unlock()
		out, _, err := f(in)
		if err != nil {
			return err
		}
		if out == nil {
			return nil
		}
		if attempt < conflict {
			sched.Yield("cas-retry")
			continue
		}
		v.s.mu.Lock()
		if v.s.Dead[v.w] {
			v.s.mu.Unlock()
			return ErrInjected
		}
		v.s.commits[v.w]++
		k := v.s.commits[v.w]
		if v.s.BeforeCommit != nil && !v.s.BeforeCommit(v.w, k) {
			v.s.mu.Unlock()
			return ErrInjected
		}
		b, err := v.s.codec[key].Encode(out)
		if err != nil {
			v.s.mu.Unlock()
			return err
		}
		v.s.data[key] = b
		w := Write{Writer: v.w, Key: key, In: inCopy, Out: v.s.decode(key), At: time.Now()}
		v.s.Writes = append(v.s.Writes, w)
		if v.s.Observe != nil {
			v.s.Observe(w)
		}
		cb := v.s.OnCommit
		v.s.mu.Unlock()
		if cb != nil {
			cb(w, k)
		}
		return nil
	}
}

func (v *view) WatchKey(ctx context.Context, key string, f func(interface{}) bool) { <-ctx.Done() }
func (v *view) WatchPrefix(ctx context.Context, prefix string, f func(string, interface{}) bool) {
	<-ctx.Done()
}

// LowestFree is a deterministic token generator: the n lowest tokens of a small space not yet taken.
// (Ignoring the taken set collides at once.)
type LowestFree struct {
	Space uint32
	Start uint32 // first candidate (a restarted process starts elsewhere, so regenerated tokens differ from kept ones)
}

func (g LowestFree) GenerateTokens(n int, taken []uint32) []uint32 {
	tk := map[uint32]bool{}
	for _, t := range taken {
		tk[t] = true
	}
	var out []uint32
	start := g.Start
	if start == 0 {
		start = 1
	}
	for i := uint32(0); i < g.Space && len(out) < n; i++ {
		t := (start-1+i)%g.Space + 1
		if !tk[t] {
			out = append(out, t)
		}
	}
	sort.Slice(out, func(i, j int) bool { return out[i] < out[j] })
	return out
}

// helper: canonical printing of sorted string sets
func joinSorted(m map[string]bool) string {
	var s []string
	for k := range m {
		s = append(s, k)
	}
	sort.Strings(s)
	return strings.Join(s, ",")
}

var _ = fmt.Sprint
