// C15 (routing + replication sets) — keys route to the next ACTIVE partition; per-partition
// replication sets are exactly the healthy registered owners. Engine E1.
// (The partition state-machine half of C15 lives in c15l: lifecycle histories.)
package c15

import (
	"context"
	"errors"
	"fmt"
	"sort"
	"strings"
	"testing"
	"time"

	"github.com/grafana/dskit/ring"

	"verif/enum"
	"verif/ev"
)

const M = ^uint32(0)

var tokAlpha = []uint32{0, 1, 2, 7, M - 1, M}

var pstates = []ring.PartitionState{ring.PartitionPending, ring.PartitionActive, ring.PartitionInactive}

type pcase struct {
	tokens [][]uint32
	states []ring.PartitionState
}

func (c pcase) String() string {
	var sb strings.Builder
	for i := range c.tokens {
		fmt.Fprintf(&sb, "P%d[%s t=%v] ", i, c.states[i], c.tokens[i])
	}
	return sb.String()
}

func decode(n, idx int) (pcase, bool) {
	c := pcase{tokens: make([][]uint32, n), states: make([]ring.PartitionState, n)}
	for _, t := range tokAlpha {
		o := idx % (n + 1)
		idx /= n + 1
		if o == 0 {
			continue
		}
		if len(c.tokens[o-1]) >= 2 {
			return c, false
		}
		c.tokens[o-1] = append(c.tokens[o-1], t)
	}
	for i := 0; i < n; i++ {
		c.states[i] = pstates[idx%3]
		idx /= 3
	}
	return c, true
}

func ipow(b, e int) int {
	r := 1
	for ; e > 0; e-- {
		r *= b
	}
	return r
}

// reference: linear clockwise scan for the first token strictly greater than key owned by an ACTIVE partition
func refRoute(c pcase, key uint32) (int32, bool) {
	type tk struct {
		t uint32
		p int
	}
	var all []tk
	for p, ts := range c.tokens {
		for _, t := range ts {
			all = append(all, tk{t, p})
		}
	}
	sort.Slice(all, func(i, j int) bool { return all[i].t < all[j].t })
	if len(all) == 0 {
		return 0, false
	}
	start := 0
	for i, x := range all {
		if x.t > key {
			start = i
			break
		}
	}
	for k := 0; k < len(all); k++ {
		x := all[(start+k)%len(all)]
		if c.states[x.p] == ring.PartitionActive {
			return int32(x.p), true
		}
	}
	return 0, false
}

func keysFor(c pcase) []uint32 {
	set := map[uint32]bool{0: true, 1: true, M - 1: true, M: true, 1 << 31: true}
	for _, ts := range c.tokens {
		for _, t := range ts {
			set[t-1], set[t], set[t+1] = true, true, true
		}
	}
	var ks []uint32
	for k := range set {
		ks = append(ks, k)
	}
	sort.Slice(ks, func(i, j int) bool { return ks[i] < ks[j] })
	return ks
}

func TestC15Routing(t *testing.T) {
	rep := ev.NewReport("C15", "routing")
	maxN := 3
	if ev.Thorough() {
		maxN = 4
	}
	rep.Bound = fmt.Sprintf("partition rings of 1..%d partitions, every token→partition assignment over %v (<=2 tokens each, token-less partitions included), every state vector over {pending, active, inactive}; keys t-1,t,t+1 per token + 0,1,M-1,M,2^31; GetKeysByPartition over every key tuple of length <=3 from 5 keys", maxN, tokAlpha)
	rep.Rule = "real ActivePartitionForKey / ActivePartitionBatchRing.Get / GetKeysByPartition vs a linear clockwise scan; ErrNoActivePartitionFound iff no active partition owns a token; distinct_nontrivial = rings where some key skips a non-active partition"
	deadline := ev.Deadline(10 * time.Minute)
	for n := 1; n <= maxN; n++ {
		count := ipow(n+1, len(tokAlpha)) * ipow(3, n)
		ok := enum.Par(count, deadline, func() bool { return rep.NumViolations() >= 20 }, func(idx int) {
			c, valid := decode(n, idx)
			if !valid {
				return
			}
			desc := ring.NewPartitionRingDesc()
			for i := 0; i < n; i++ {
				desc.Partitions[int32(i)] = ring.PartitionDesc{Id: int32(i), Tokens: append([]uint32(nil), c.tokens[i]...), State: c.states[i], StateTimestamp: 1}
			}
			pr, err := ring.NewPartitionRing(*desc)
			if err != nil {
				rep.Violate("new:"+c.String(), "NewPartitionRing: "+err.Error(), nil)
				return
			}
			rep.State(1)
			br := ring.NewActivePartitionBatchRing(pr)
			viol := func(kind, what string) {
				rep.Violate("route:"+kind+":"+c.String(), fmt.Sprintf("partition ring %s: %s", c.String(), what), map[string]any{"n": n, "idx": idx})
			}
			ks := keysFor(c)
			skipped := false
			for _, k := range ks {
				want, ok := refRoute(c, k)
				var got int32
				var err error
				func() {
					defer func() {
						if p := recover(); p != nil {
							err = fmt.Errorf("PANIC %v", p)
						}
					}()
					got, err = pr.ActivePartitionForKey(k)
				}()
				rep.Eval(1)
				rep.Trans(1)
				if err != nil && strings.HasPrefix(err.Error(), "PANIC") {
					viol("panic", err.Error())
					continue
				}
				if !ok {
					if !errors.Is(err, ring.ErrNoActivePartitionFound) {
						viol("noactive", fmt.Sprintf("key %d: no active partition with tokens, want ErrNoActivePartitionFound, got partition %d err=%v", k, got, err))
					}
					continue
				}
				if err != nil || got != want {
					viol("wrong", fmt.Sprintf("key %d: routed to %d (err=%v), want %d", k, got, err, want))
				}
				// did the route skip a non-active partition?
				if w2, _ := refRoute(pcase{c.tokens, allActive(n)}, k); w2 != want {
					skipped = true
				}
				rs, err := br.Get(k, ring.Write, nil, nil, nil)
				rep.Eval(1)
				if err != nil || len(rs.Instances) != 1 || rs.Instances[0].Id != fmt.Sprint(want) || rs.MaxErrors != 0 {
					viol("batchget", fmt.Sprintf("ActivePartitionBatchRing.Get(%d) = %v err=%v, want single instance %d", k, rs.Instances, err, want))
				}
			}
			if skipped {
				rep.Distinct(fmt.Sprintf("%d/%d", n, idx))
			}
			// grouping: every tuple of <=3 keys out of the first 5 boundary keys
			gk := ks
			if len(gk) > 5 {
				gk = gk[:5]
			}
			for l := 0; l <= 3; l++ {
				for ti := 0; ti < ipow(len(gk), l); ti++ {
					keys := make([]uint32, l)
					x := ti
					for j := 0; j < l; j++ {
						keys[j] = gk[x%len(gk)]
						x /= len(gk)
					}
					res, err := br.GetKeysByPartition(context.Background(), keys)
					rep.Eval(1)
					wantGroups := map[int32][]int{}
					anyActive := false
					for i := 0; i < n; i++ {
						if c.states[i] == ring.PartitionActive {
							anyActive = true
						}
					}
					routable := true
					for i, k := range keys {
						p, ok := refRoute(c, k)
						if !ok {
							routable = false
							break
						}
						wantGroups[p] = append(wantGroups[p], i)
					}
					if !anyActive || (!routable && len(keys) > 0) {
						if err == nil {
							viol("group-noerr", fmt.Sprintf("GetKeysByPartition(%v) succeeded although a key has no active partition: %v", keys, res))
						}
						continue
					}
					if err != nil {
						viol("group-err", fmt.Sprintf("GetKeysByPartition(%v): %v", keys, err))
						continue
					}
					gotGroups := map[int32][]int{}
					for _, g := range res {
						if _, dup := gotGroups[g.PartitionID]; dup {
							viol("group-dup", fmt.Sprintf("GetKeysByPartition(%v) lists partition %d twice", keys, g.PartitionID))
						}
						gotGroups[g.PartitionID] = append([]int(nil), g.Indexes...)
					}
					if fmt.Sprint(gotGroups) != fmt.Sprint(wantGroups) {
						viol("group", fmt.Sprintf("GetKeysByPartition(%v) = %v, want %v", keys, gotGroups, wantGroups))
					}
				}
			}
			if idx%(count/3+1) == 5 {
				rep.Sample(c.String())
			}
		})
		if !ok {
			rep.NotExhaustive("deadline or violation cap")
			break
		}
	}
	rep.Trace(rep.Transitions)
	if err := rep.Write(); err != nil {
		t.Fatal(err)
	}
}

func allActive(n int) []ring.PartitionState {
	s := make([]ring.PartitionState, n)
	for i := range s {
		s[i] = ring.PartitionActive
	}
	return s
}

// ---- replication sets ----

type staticReader struct{ r *ring.PartitionRing }

func (s staticReader) PartitionRing() *ring.PartitionRing { return s.r }

type instReader struct{ m map[string]ring.InstanceDesc }

func (i instReader) GetInstance(id string) (ring.InstanceDesc, error) {
	d, ok := i.m[id]
	if !ok {
		return ring.InstanceDesc{}, ring.ErrInstanceNotFound
	}
	return d, nil
}
func (i instReader) InstancesCount() int { return len(i.m) }

// owner status: 0 not an owner; 1 healthy; 2 stale heartbeat; 3 wrong state (JOINING); 4 unknown to the instance ring
const nStatus = 5

func TestC15ReplicationSets(t *testing.T) {
	rep := ev.NewReport("C15", "replication-sets")
	owners := []string{"o0", "o1", "o2"}
	zones := [][]string{{"a", "b", "c"}, {"a", "a", "b"}, {"", "", ""}}
	rep.Bound = "2 partitions (states active/inactive/pending) × 3 candidate owners per partition, each: not owner | healthy | heartbeat stale by 1s (others exactly at the timeout) | wrong state | unknown to the instance ring; 3 zone layouts; ops Read and Write"
	rep.Rule = "real PartitionInstanceRing.GetReplicationSetsForOperation: one set per partition holding exactly the healthy registered owners, zone-aware with MaxUnavailableZones = #zones-1, error iff some partition has no healthy owner; distinct_nontrivial = cases with at least one unhealthy or unknown owner that must be filtered"
	deadline := ev.Deadline(10 * time.Minute)
	const hb = time.Minute
	enum.Frozen(t, func() {
		now := time.Now()
		count := ipow(nStatus, 6) * 3 * 3 // status of 3 owners × 2 partitions, zone layout, state of partition 1
		ok := enum.Par(count, deadline, func() bool { return rep.NumViolations() >= 20 }, func(idx int) {
			x := idx
			st := [2][3]int{}
			for p := 0; p < 2; p++ {
				for o := 0; o < 3; o++ {
					st[p][o] = x % nStatus
					x /= nStatus
				}
			}
			zl := zones[x%3]
			x /= 3
			p1state := pstates[x%3]
			desc := ring.NewPartitionRingDesc()
			desc.Partitions[0] = ring.PartitionDesc{Id: 0, Tokens: []uint32{10}, State: ring.PartitionActive, StateTimestamp: 1}
			desc.Partitions[1] = ring.PartitionDesc{Id: 1, Tokens: []uint32{20}, State: p1state, StateTimestamp: 1}
			insts := map[string]ring.InstanceDesc{}
			want := map[int32][]string{}
			filtered := false
			for p := 0; p < 2; p++ {
				for o := 0; o < 3; o++ {
					s := st[p][o]
					if s == 0 {
						continue
					}
					id := fmt.Sprintf("%s-p%d", owners[o], p)
					desc.Owners[id] = ring.OwnerDesc{OwnedPartition: int32(p), State: ring.OwnerActive, UpdatedTimestamp: 1}
					in := ring.InstanceDesc{Id: id, Addr: id, Zone: zl[o], State: ring.ACTIVE, Timestamp: now.Add(-hb).Unix(), Tokens: []uint32{uint32(100 + p*10 + o)}}
					switch s {
					case 2:
						in.Timestamp = now.Add(-hb - time.Second).Unix()
					case 3:
						in.State = ring.JOINING
					}
					if s != 4 {
						insts[id] = in
					}
					if s == 1 {
						want[int32(p)] = append(want[int32(p)], id)
					} else {
						filtered = true
					}
				}
			}
			pr, err := ring.NewPartitionRing(*desc)
			if err != nil {
				panic(err)
			}
			pir := ring.NewPartitionInstanceRing(staticReader{pr}, instReader{insts}, hb)
			caseStr := fmt.Sprintf("status=%v zones=%v p1=%s", st, zl, p1state)
			for _, o := range []ring.Operation{ring.Read, ring.Write} {
				sets, err := pir.GetReplicationSetsForOperation(o)
				rep.Eval(1)
				rep.Trans(1)
				wantErr := len(want[0]) == 0 || len(want[1]) == 0
				if wantErr {
					if err == nil {
						rep.Violate("rs:noerr:"+caseStr, fmt.Sprintf("%s: a partition has no healthy owner but no error was returned (sets %v)", caseStr, sets), nil)
					}
					continue
				}
				if err != nil {
					rep.Violate("rs:err:"+caseStr, fmt.Sprintf("%s: unexpected error %v", caseStr, err), nil)
					continue
				}
				if len(sets) != 2 {
					rep.Violate("rs:count:"+caseStr, fmt.Sprintf("%s: %d sets for 2 partitions", caseStr, len(sets)), nil)
					continue
				}
				seen := map[int32]bool{}
				for _, s := range sets {
					var ids []string
					zs := map[string]bool{}
					for _, in := range s.Instances {
						ids = append(ids, in.Id)
						zs[in.Zone] = true
					}
					sort.Strings(ids)
					var p int32 = -1
					for pp, w := range want {
						ww := append([]string(nil), w...)
						sort.Strings(ww)
						if fmt.Sprint(ww) == fmt.Sprint(ids) {
							p = pp
						}
					}
					if p < 0 || seen[p] {
						rep.Violate("rs:members:"+caseStr, fmt.Sprintf("%s op=%v: set %v is not the healthy-owner set of a partition (want %v)", caseStr, o, ids, want), nil)
						continue
					}
					seen[p] = true
					if !s.ZoneAwarenessEnabled || s.MaxUnavailableZones != len(zs)-1 || s.MaxErrors != 0 {
						rep.Violate("rs:tol:"+caseStr, fmt.Sprintf("%s: set %v has ZoneAwarenessEnabled=%v MaxUnavailableZones=%d MaxErrors=%d, want zone-aware with %d", caseStr, ids, s.ZoneAwarenessEnabled, s.MaxUnavailableZones, s.MaxErrors, len(zs)-1), nil)
					}
				}
			}
			rep.State(1)
			if filtered {
				rep.Distinct(fmt.Sprint(idx))
			}
			if idx%(count/3+1) == 17 {
				rep.Sample(caseStr)
			}
		})
		if !ok {
			rep.NotExhaustive("deadline or violation cap")
		}
	})
	rep.Trace(rep.Transitions)
	if err := rep.Write(); err != nil {
		t.Fatal(err)
	}
}
