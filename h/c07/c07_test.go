// C07 — compare-and-swap is atomic on every KV backend: no lost or phantom updates.
// Engine E2: kv/consul/mock.go, kv/etcd/mock.go and kv/memberlist/memberlist_client.go run on
// yielding sync/atomic shims; concurrent callers (CAS functions that append a tag, decline, fail,
// fail-then-retry) are explored over all schedules with a bounded number of preemptions, on the bare
// clients and behind the prefix, metrics and multi(mirroring) wrappers.
package c07

import (
	"context"
	"errors"
	"fmt"
	"io"
	"os"
	"sort"
	"strings"
	"testing"
	"testing/synctest"
	"time"

	"github.com/go-kit/log"

	"github.com/grafana/dskit/kv"
	"github.com/grafana/dskit/kv/codec"
	"github.com/grafana/dskit/kv/consul"
	"github.com/grafana/dskit/kv/etcd"
	"github.com/grafana/dskit/kv/memberlist"

	"verif/ev"
	"verif/sched"
)

// ---- value type: a set of tags (grow-only; Mergeable for the gossip store) ----

type val struct{ Tags []string }

func (v *val) canon() string {
	if v == nil {
		return "<nil>"
	}
	t := append([]string(nil), v.Tags...)
	sort.Strings(t)
	return strings.Join(t, ",")
}

func (v *val) Merge(other memberlist.Mergeable, _ bool) (memberlist.Mergeable, error) {
	o, ok := other.(*val)
	if !ok || o == nil {
		return nil, nil
	}
	have := map[string]bool{}
	for _, t := range v.Tags {
		have[t] = true
	}
	var added []string
	for _, t := range o.Tags {
		if !have[t] {
			have[t] = true
			v.Tags = append(v.Tags, t)
			added = append(added, t)
		}
	}
	if len(added) == 0 {
		return nil, nil
	}
	return &val{Tags: added}, nil
}
func (v *val) MergeContent() []string                          { return append([]string(nil), v.Tags...) }
func (v *val) RemoveTombstones(time.Time) (total, removed int) { return 0, 0 }
func (v *val) Clone() memberlist.Mergeable                     { return &val{Tags: append([]string(nil), v.Tags...)} }

type valCodec struct{}

func (valCodec) CodecID() string { return "c07" }
func (valCodec) Encode(v interface{}) ([]byte, error) {
	return []byte(strings.Join(v.(*val).Tags, ",")), nil
}
func (valCodec) Decode(b []byte) (interface{}, error) {
	if len(b) == 0 {
		return &val{}, nil
	}
	return &val{Tags: strings.Split(string(b), ",")}, nil
}

var _ codec.Codec = valCodec{}

// ---- scenarios ----

type scenario struct {
	backend string // consul etcd gossip
	wrapper string // bare prefix metrics multi
	name    string
	callers [][]string // per caller: ops A (append), D (decline), F (fail, no retry), R (fail with retry once, then append)
	prepop  bool       // key exists before the callers start
	retries int        // CAS retry budget of the backend (0 = its default, 10)
}

func (s scenario) String() string {
	if s.retries > 0 {
		return fmt.Sprintf("%s/%s/%s%v prepop=%v retries=%d", s.backend, s.wrapper, s.name, s.callers, s.prepop, s.retries)
	}
	return fmt.Sprintf("%s/%s/%s%v prepop=%v", s.backend, s.wrapper, s.name, s.callers, s.prepop)
}

var errNo = errors.New("function refuses")

type inv struct {
	caller, op int
	in, out    string
	seq        int
}

type callRes struct {
	caller, op int
	kind       string
	err        error
	tag        string
}

func buildBackend(sc scenario) (kv.Client, kv.Client, func()) {
	var closers []func()
	mk := func() kv.Client {
		switch sc.backend {
		case "consul":
			c, cl := consul.NewInMemoryClientWithConfig(valCodec{}, consul.Config{MaxCasRetries: max(sc.retries, 0)}, log.NewNopLogger(), nil)
			closers = append(closers, func() { _ = cl.Close() })
			return c
		case "etcd":
			if sc.retries > 0 {
				c, cl := etcd.VerifNewInMemoryClientWithRetries(valCodec{}, log.NewNopLogger(), sc.retries)
				closers = append(closers, func() { _ = cl.Close() })
				return c
			}
			c, cl := etcd.NewInMemoryClient(valCodec{}, log.NewNopLogger())
			closers = append(closers, func() { _ = cl.(io.Closer).Close() })
			return c
		default:
			cfg := memberlist.KVConfig{RetransmitMult: 1, Codecs: []codec.Codec{valCodec{}}, ProcessedMessagesQueueSize: 8}
			m, err := memberlist.VerifNewDetachedKV(cfg, log.NewNopLogger(), func() int { return 1 })
			if err != nil {
				panic(err)
			}
			if sc.retries > 0 {
				m.VerifSetMaxCasRetries(sc.retries)
			}
			c, err := memberlist.NewClient(m, valCodec{})
			if err != nil {
				panic(err)
			}
			closers = append(closers, m.VerifShutdown)
			return c
		}
	}
	primary := mk()
	var secondary kv.Client
	var front kv.Client = primary
	switch sc.wrapper {
	case "prefix":
		front = kv.PrefixClient(primary, "pfx/")
	case "metrics":
		front = kv.VerifNewMetricsClient(sc.backend, primary)
	case "multi":
		secondary = mk()
		front = kv.VerifNewMultiClient(kv.MultiConfig{MirrorEnabled: true}, primary, secondary, log.NewNopLogger())
	}
	return front, secondary, func() {
		for _, c := range closers {
			c()
		}
	}
}

func runOne(t *testing.T, sc scenario, ch *sched.Chooser) (res sched.Result) {
	synctest.Test(t, func(t *testing.T) {
		e := sched.NewExec(ch)
		e.MaxSteps = 6000
		e.MaxIdle = 12 // the gossip store sleeps one (virtual) second when a merge detects no change
		front, secondary, closeAll := buildBackend(sc)
		ctx := context.Background()
		const key = "k"
		if sc.prepop {
			if err := front.CAS(ctx, key, func(interface{}) (interface{}, bool, error) { return &val{Tags: []string{"init"}}, false, nil }); err != nil {
				panic(err)
			}
		}
		var invs []inv
		var results []callRes
		seq := 0
		e.Enable()
		for ci, ops := range sc.callers {
			e.Go(fmt.Sprintf("caller%d", ci), func() {
				for oi, kind := range ops {
					tag := fmt.Sprintf("c%d.%d", ci, oi)
					attempts := 0
					err := front.CAS(ctx, key, func(in interface{}) (interface{}, bool, error) {
						attempts++
						var cur *val
						if in != nil {
							cur = in.(*val)
						}
						rec := inv{caller: ci, op: oi, in: cur.canon()}
						if kind == "C" && cur != nil {
							// "claim the key if it is free, else leave it": declines once somebody else's tag is there —
							// typically on the retry after its first attempt lost the race
							for _, tg := range cur.Tags {
								if tg != "init" {
									rec.out = "<declined>"
									seq++
									rec.seq = seq
									invs = append(invs, rec)
									return nil, false, nil
								}
							}
						}
						switch kind {
						case "D":
							rec.out = "<declined>"
							seq++
							rec.seq = seq
							invs = append(invs, rec)
							return nil, false, nil
						case "F":
							if cur != nil {
								cur.Tags = append(cur.Tags, tag+"!scratch") // the function may scribble on its input: nothing of it may survive
							}
							rec.out = "<failed>"
							seq++
							rec.seq = seq
							invs = append(invs, rec)
							return nil, false, errNo
						case "R":
							if attempts == 1 {
								if cur != nil {
									cur.Tags = append(cur.Tags, tag+"!scratch") // modified in place, then "please retry": the next attempt must start from the stored value
								}
								rec.out = "<retry>"
								seq++
								rec.seq = seq
								invs = append(invs, rec)
								return nil, true, errNo
							}
						}
						out := &val{}
						if cur != nil {
							out.Tags = append(out.Tags, cur.Tags...)
						}
						out.Tags = append(out.Tags, tag)
						rec.out = out.canon()
						seq++
						rec.seq = seq
						invs = append(invs, rec)
						return out, true, nil
					})
					sched.Yield("cas-returned")
					results = append(results, callRes{ci, oi, kind, err, tag})
				}
			})
		}
		status := e.Run()
		canon := e.CanonLog()
		trace := append([]string{}, e.Trace...)
		parked := e.Parked()
		e.Disable()
		synctest.Wait()
		var viol, vkey string
		fail := func(k, f string, a ...any) {
			if viol == "" {
				viol, vkey = fmt.Sprintf(f, a...), k
			}
		}
		if status != "done" {
			fail("hang", "callers did not finish: status=%s parked=%v", status, parked)
		}
		v, gerr := front.Get(ctx, key)
		final := "<nil>"
		if gerr != nil {
			fail("get", "final Get failed: %v", gerr)
		} else if v != nil {
			final = v.(*val).canon()
		}
		if viol == "" {
			// committed invocation of every successful appending call = its last invocation
			wantTags := map[string]bool{}
			if sc.prepop {
				wantTags["init"] = true
			}
			var committed []inv
			for _, r := range results {
				switch r.kind {
				case "D":
					if r.err != nil {
						fail("declined-error", "caller %d op %d declined to write but CAS returned %v", r.caller, r.op, r.err)
					}
				case "F":
					if r.err == nil {
						fail("failed-ok", "caller %d op %d: function failed without retry but CAS reported success", r.caller, r.op)
					}
				default:
					if r.kind == "C" {
						// a claim that ended by declining wrote nothing (whatever its earlier attempts proposed)
						var lastAny *inv
						for i := range invs {
							if invs[i].caller == r.caller && invs[i].op == r.op {
								lastAny = &invs[i]
							}
						}
						if lastAny != nil && lastAny.out == "<declined>" {
							if r.err != nil {
								fail("declined-error", "caller %d op %d declined to write but CAS returned %v", r.caller, r.op, r.err)
							}
							continue
						}
					}
					if r.err == nil {
						wantTags[r.tag] = true
						var last *inv
						for i := range invs {
							if invs[i].caller == r.caller && invs[i].op == r.op && !strings.HasPrefix(invs[i].out, "<") {
								last = &invs[i]
							}
						}
						if last == nil {
							fail("no-invocation", "caller %d op %d succeeded without its function producing a value", r.caller, r.op)
						} else {
							committed = append(committed, *last)
						}
					}
				}
			}
			var want []string
			for t := range wantTags {
				want = append(want, t)
			}
			sort.Strings(want)
			if final != strings.Join(want, ",") && !(len(want) == 0 && final == "<nil>") {
				fail("final", "final value {%s} but the successful calls are exactly {%s} (lost or phantom update); invocations %v", final, strings.Join(want, ","), invs)
			}
			if sc.backend != "gossip" || sc.prepop {
				// the committed invocations form a chain: each saw the value left by the previous one
				nt := func(s string) int {
					if s == "<nil>" || s == "" {
						return 0
					}
					return strings.Count(s, ",") + 1
				}
				sort.Slice(committed, func(i, j int) bool {
					a, b := nt(committed[i].in), nt(committed[j].in)
					return a < b || (a == b && committed[i].seq < committed[j].seq)
				})
				prev := "<nil>"
				if sc.prepop {
					prev = "init"
				}
				for _, c := range committed {
					if c.in != prev && !(c.in == "" && prev == "<nil>") {
						fail("chain", "successful call of caller %d op %d applied its function to {%s}, but the previous successful call had left {%s}: a successful update was overwritten unseen; invocations %v", c.caller, c.op, c.in, prev, invs)
						break
					}
					prev = c.out
				}
			}
			if secondary != nil {
				sv, _ := secondary.Get(ctx, key)
				if sv != nil {
					s := sv.(*val).canon()
					ok := s == "init"
					for _, c := range committed {
						if c.out == s {
							ok = true
						}
					}
					if sc.backend == "gossip" {
						ok = true
						for _, tg := range sv.(*val).Tags {
							if !wantTags[tg] {
								ok = false
							}
						}
					}
					if !ok {
						fail("mirror", "secondary store holds {%s} which no successful call wrote (%v)", s, committed)
					}
				}
			}
		}
		out := final
		for _, r := range results {
			out += fmt.Sprintf("|%d.%d:%v", r.caller, r.op, r.err == nil)
		}
		res = sched.Result{Violation: viol, Key: vkey, Outcome: out + fmt.Sprintf("|invocations=%d", len(invs)), Trace: append(trace, canon...)}
		closeAll()
		e.Teardown()
	})
	return
}

func scenarios() []scenario {
	var out []scenario
	sets := []struct {
		name    string
		callers [][]string
	}{
		{"2x1", [][]string{{"A"}, {"A"}}},
		{"2x2", [][]string{{"A", "A"}, {"A", "A"}}},
		{"mixed", [][]string{{"A", "D"}, {"F", "A"}}},
		{"retry", [][]string{{"R"}, {"A"}}},
	}
	if true {
		sets = append(sets, struct {
			name    string
			callers [][]string
		}{"3x1", [][]string{{"A"}, {"A"}, {"A"}}}, struct {
			name    string
			callers [][]string
		}{"2x3", [][]string{{"A", "A", "A"}, {"A", "R", "A"}}})
	}
	for _, b := range []string{"consul", "etcd", "gossip"} {
		for _, s := range sets {
			out = append(out, scenario{backend: b, wrapper: "bare", name: s.name, callers: s.callers})
			out = append(out, scenario{backend: b, wrapper: "bare", name: s.name, callers: s.callers, prepop: true})
		}
		// small retry budgets: a call that loses every attempt to a competitor must report failure (and write nothing)
		out = append(out, scenario{backend: b, wrapper: "bare", name: "2x1", callers: sets[0].callers, prepop: true, retries: 1})
		out = append(out, scenario{backend: b, wrapper: "bare", name: "3x1", callers: [][]string{{"A"}, {"A"}, {"A"}}, prepop: true, retries: 2})
		out = append(out, scenario{backend: b, wrapper: "bare", name: "3x1", callers: [][]string{{"A"}, {"A"}, {"A"}}, retries: 2})
		out = append(out, scenario{backend: b, wrapper: "multi", name: "2x1", callers: sets[0].callers, prepop: true, retries: 1})
		// two claimants ("write if free, else decline"): the loser's first proposal must not survive anywhere
		out = append(out, scenario{backend: b, wrapper: "bare", name: "claim", callers: [][]string{{"C"}, {"C"}}})
		out = append(out, scenario{backend: b, wrapper: "multi", name: "claim", callers: [][]string{{"C"}, {"C"}}})
		out = append(out, scenario{backend: b, wrapper: "multi", name: "claim", callers: [][]string{{"C"}, {"C"}}, prepop: true})
		out = append(out, scenario{backend: b, wrapper: "multi", name: "claim-then-append", callers: [][]string{{"C", "A"}, {"C"}}})
		for _, w := range []string{"prefix", "metrics", "multi"} {
			out = append(out, scenario{backend: b, wrapper: w, name: "2x1", callers: sets[0].callers})
			out = append(out, scenario{backend: b, wrapper: w, name: "mixed", callers: sets[2].callers, prepop: true})
		}
	}
	return out
}

func TestC07(t *testing.T) {
	rep := ev.NewReport("C07", "cas-atomicity")
	bound := 3
	if ev.Thorough() {
		bound = 4
	}
	if b := os.Getenv("VERIF_BOUND"); b != "" {
		fmt.Sscan(b, &bound)
	}
	scs := scenarios()
	rep.Bound = fmt.Sprintf("%d scenarios: backends {in-memory Consul-compatible store, etcd client over its in-process mock, gossip store on one detached node} × caller sets {2×1, 2×2, mixed append/decline/fail, fail-with-retry, two claimants that decline once the key is taken} 3×1 and 2×3 on an absent and on a pre-populated key, also with CAS retry budgets 1 and 2 (so that losing every attempt is within the preemption bound), bare and behind the prefix, metrics and multi(mirroring) wrappers; all schedules with <= %d preemptions over every mutex/atomic operation of the store implementations", len(scs), bound)
	rep.Rule = "stateless DFS on the real clients; oracle: the final value holds exactly the tags of the calls that reported success (no lost, no phantom update), failing and declining calls change nothing (also when the function scribbled on its input before failing or asking for a retry), the committing invocations form a chain (each applied to the value left by the previous one; for the gossip store on an absent key — where first writes are merged by design — set equality is required instead), the mirror holds a value some successful call wrote; distinct_nontrivial = distinct (scenario, final value, per-call outcome, number of function invocations)"
	deadline := ev.Deadline(8 * time.Minute)
	for _, sc := range scs {
		x := &sched.Explorer{Bound: bound, Report: rep, Deadline: deadline, Scenario: sc.String(), Run: func(c *sched.Chooser) sched.Result { return runOne(t, sc, c) }}
		if !x.ExploreOrReplay() {
			rep.NotExhaustive("deadline or violation cap in " + sc.String())
			break
		}
		rep.Add("scenarios_completed", 1)
		if x.Execs > 100 {
			rep.Sample(fmt.Sprintf("%s: %d executions, %d distinct outcomes", sc.String(), x.Execs, x.Outcomes()))
		}
	}
	if err := rep.Write(); err != nil {
		t.Fatal(err)
	}
}
