// Package gossip holds engine E3 for C04 and C06: explicit-state breadth-first search over event
// histories of a small cluster of REAL memberlist.KV nodes detached from the transport (verif hook).
// The harness plays the network through the exported delegate methods: every message a node ever
// produced stays in a grow-only pool and may be delivered to any node at any later step, any number
// of times (delay, duplication, reordering, loss for free); full-state exchanges and clock ticks are
// further events. Every reachable state (canonical form, deduplicated) is checked against a reference
// (per-entry last-writer-wins join of everything the node has been given).
package gossip

import (
	"bytes"
	"context"
	"fmt"
	"os"
	"runtime"
	"sort"
	"strings"
	"sync"
	"testing"
	"testing/synctest"
	"time"
	"unicode/utf8"

	"github.com/go-kit/log"

	"github.com/grafana/dskit/kv/codec"
	"github.com/grafana/dskit/kv/memberlist"
	"github.com/grafana/dskit/ring"

	"verif/ev"
)

const (
	ringKey      = "ring"
	retention    = 10 * time.Second
	// shorter than the tombstone retention (as with the defaults, 30 s vs 5 min): housekeeping that applied this
	// timeout to tombstones would discard them early
	obsoleteTime = 3 * time.Second
)

// ---------- workload ----------

type step struct {
	node int
	op   string // ring: register heartbeat leaving remove ; partition ring: add-partition set-active set-inactive lock unlock remove-partition add-owner remove-owner
	inst string // instance id / owner id (partition id is always 1)
}

func (s step) String() string { return fmt.Sprintf("%s(%s)@n%d", s.op, s.inst, s.node) }

const (
	opReg       = "register"
	opHeartbeat = "heartbeat"
	opLeave     = "leaving"
	opRemove    = "remove"
	opReplace   = "replace" // remove the instance and register "z" in the same CAS
)

var tokensOf = map[string][]uint32{"x": {10, 11}, "y": {20, 21}, "z": {30}}

// ---------- events ----------

type event struct {
	kind string // cas | deliver | pushpull | tick
	a, b int    // deliver: message index a to node b; pushpull: from a to b
}

func (e event) String() string {
	switch e.kind {
	case "cas":
		return fmt.Sprintf("cas#%d", e.a)
	case "deliver":
		return fmt.Sprintf("deliver(m%d→n%d)", e.a, e.b)
	case "pushpull":
		return fmt.Sprintf("pushpull(n%d→n%d)", e.a, e.b)
	case "housekeep":
		return fmt.Sprintf("housekeep(n%d)", e.a)
	case "restart":
		return fmt.Sprintf("restart(n%d)", e.a)
	case "casx":
		return fmt.Sprintf("cas#%d-with-push-from-n%d-inside", e.a, e.b)
	}
	return e.kind
}

// ---------- reference model ----------

// ent is one last-writer-wins register: an instance entry, a partition's state register, a partition's
// lock register or an owner entry. Order: (ts, tomb) — the newer timestamp wins, a removal wins a tie.
type ent struct {
	ts      int64
	tomb    bool
	payload string
}

type refState map[string]ent

func (r refState) clone() refState {
	o := refState{}
	for k, v := range r {
		o[k] = v
	}
	return o
}

func newer(a, b ent) bool { // is a strictly preferred over b
	if a.ts != b.ts {
		return a.ts > b.ts
	}
	return a.tomb && !b.tomb
}

func (r refState) join(o refState) (changed []string) {
	for id, e := range o {
		cur, ok := r[id]
		if !ok || newer(e, cur) {
			r[id] = e
			changed = append(changed, id)
		}
	}
	return
}

func (r refState) canon(base int64, withTombstones bool) string {
	var ids []string
	for id := range r {
		ids = append(ids, id)
	}
	sort.Strings(ids)
	var sb strings.Builder
	for _, id := range ids {
		e := r[id]
		if !withTombstones {
			if e.tomb {
				continue
			}
			// a partition's lock register is only visible with its partition
			if strings.HasSuffix(id, ".lock") {
				if st, ok := r[strings.TrimSuffix(id, ".lock")+".state"]; !ok || st.tomb {
					continue
				}
			}
		}
		off := e.ts - base
		if e.ts == 0 {
			off = -999
		}
		fmt.Fprintf(&sb, "%s:%s@%+d|", id, e.payload, off)
	}
	return sb.String()
}

func instEnt(state ring.InstanceState, ts int64, tokens []uint32) ent {
	if state == ring.LEFT {
		return ent{ts, true, "LEFT[]"}
	}
	tk := fmt.Sprint(tokens)
	if len(tokens) == 0 {
		tk = "[]"
	}
	return ent{ts, false, state.String() + tk}
}

func descToRef(v interface{}) refState {
	r := refState{}
	switch d := v.(type) {
	case *ring.Desc:
		if d == nil {
			return r
		}
		for id, in := range d.Ingesters {
			r[id] = instEnt(in.State, in.Timestamp, in.Tokens)
		}
	case *ring.PartitionRingDesc:
		if d == nil {
			return r
		}
		for id, p := range d.Partitions {
			r[fmt.Sprintf("p%d.state", id)] = ent{p.StateTimestamp, p.State == ring.PartitionDeleted, p.State.String()}
			r[fmt.Sprintf("p%d.lock", id)] = ent{p.StateChangeLockedTimestamp, false, fmt.Sprint(p.StateChangeLocked)}
		}
		for id, o := range d.Owners {
			r["o:"+id] = ent{o.UpdatedTimestamp, o.State == ring.OwnerDeleted, fmt.Sprintf("p%d %s", o.OwnedPartition, o.State)}
		}
	}
	return r
}

// ---------- cluster of real nodes ----------

type node struct {
	kv        *memberlist.KV
	cli       *memberlist.Client
	watchLast string
	watchN    int
	stopWatch context.CancelFunc
	ref       refState
}

type poolMsg struct {
	data     []byte
	producer int
	content  refState
}

type cluster struct {
	nodes       []*node
	pool        []poolMsg
	base        int64
	script      []step // alphabet of CAS operations (any of them may be issued next)
	pos         int    // number of CAS operations issued so far
	maxCAS      int
	casLog      []step
	key         string
	partition   bool
	codec       codec.Codec
	problem     string
	keepForever bool
	mkNode      func() *node
	inCAS       func() // runs once, inside the next CAS function (first invocation)
}

// keepForever (optional): the nodes are configured with LeftIngestersTimeout 0 — tombstones are never discarded
func newCluster(n int, script []step, maxCAS int, partition bool, keepForever ...bool) *cluster {
	c := &cluster{script: script, maxCAS: maxCAS, codec: ring.GetCodec(), key: ringKey, base: time.Now().Unix(), partition: partition}
	if partition {
		c.codec, c.key = ring.GetPartitionRingCodec(), "pring"
	}
	c.mkNode = func() *node {
		cfg := memberlist.KVConfig{
			RetransmitMult:             1,
			LeftIngestersTimeout:       map[bool]time.Duration{false: retention, true: 0}[len(keepForever) > 0 && keepForever[0]],
			ObsoleteEntriesTimeout:     obsoleteTime,
			ProcessedMessagesQueueSize: 16,
			Codecs:                     []codec.Codec{ring.GetCodec(), ring.GetPartitionRingCodec()},
		}
		kv, err := memberlist.VerifNewDetachedKV(cfg, log.NewNopLogger(), func() int { return n })
		if err != nil {
			panic(err)
		}
		cli, err := memberlist.NewClient(kv, c.codec)
		if err != nil {
			panic(err)
		}
		nd := &node{kv: kv, cli: cli, ref: refState{}}
		ctx, cancel := context.WithCancel(context.Background())
		nd.stopWatch = cancel
		go cli.WatchKey(ctx, c.key, func(v interface{}) bool {
			nd.watchN++
			nd.watchLast = descToRef(v).canon(c.base, false)
			return true
		})
		return nd
	}
	for i := 0; i < n; i++ {
		c.nodes = append(c.nodes, c.mkNode())
	}
	synctest.Wait()
	return c
}

func (c *cluster) shutdown() {
	for _, n := range c.nodes {
		n.stopWatch()
		n.kv.VerifShutdown()
	}
	synctest.Wait()
}

func (c *cluster) decodeMsg(data []byte) (refState, bool) {
	var p memberlist.KeyValuePair
	if err := p.Unmarshal(data); err != nil || p.Key != c.key || p.Codec != c.codec.CodecID() {
		return nil, false
	}
	v, err := c.codec.Decode(p.Value)
	if err != nil {
		return nil, false
	}
	return descToRef(v), true
}

// drain moves everything node i has queued into the network pool; returns the contents drained.
func (c *cluster) drain(i int) []refState {
	var out []refState
	for {
		msgs := c.nodes[i].kv.GetBroadcasts(0, 1<<20)
		if len(msgs) == 0 {
			return out
		}
		for _, m := range msgs {
			content, ok := c.decodeMsg(m)
			if !ok {
				c.problem = fmt.Sprintf("node %d queued a broadcast that does not decode", i)
				continue
			}
			out = append(out, content)
			dup := false
			for _, p := range c.pool {
				if bytes.Equal(p.data, m) {
					dup = true
				}
			}
			if !dup {
				c.pool = append(c.pool, poolMsg{append([]byte(nil), m...), i, content})
			}
		}
	}
}

func (c *cluster) localState(i int) refState {
	data := c.nodes[i].kv.LocalState(false)
	r := refState{}
	for len(data) >= 4 {
		l := int(uint32(data[0])<<24 | uint32(data[1])<<16 | uint32(data[2])<<8 | uint32(data[3]))
		data = data[4:]
		if l > len(data) {
			break
		}
		if m, ok := c.decodeMsg(data[:l]); ok {
			r.join(m)
		}
		data = data[l:]
	}
	return r
}

func (c *cluster) visible(i int) string {
	v, err := c.nodes[i].cli.Get(context.Background(), c.key)
	if err != nil {
		return "ERR:" + err.Error()
	}
	r := descToRef(v)
	for id, e := range r {
		if e.tomb {
			c.problem = fmt.Sprintf("reader on node %d sees the tombstone of %s", i, id)
		}
	}
	return r.canon(c.base, false)
}

// applyCAS performs step s on the real node (through the real kv client CAS) and mirrors its
// effect on the reference: the function sees the reader's view and its output is merged as a local write.
func (c *cluster) applyCAS(s step) {
	nd := c.nodes[s.node]
	var usedNow int64
	var effect func() // reference effect of the LAST invocation of f (CAS may re-run f)
	vis := func(id string) (ent, bool) {
		e, ok := nd.ref[id]
		if !ok || e.tomb {
			return ent{}, false
		}
		if strings.HasSuffix(id, ".lock") {
			if st, ok := nd.ref[strings.TrimSuffix(id, ".lock")+".state"]; !ok || st.tomb {
				return ent{}, false
			}
		}
		return e, true
	}
	err := nd.cli.CAS(context.Background(), c.key, func(in interface{}) (interface{}, bool, error) {
		if h := c.inCAS; h != nil {
			c.inCAS = nil
			h() // something reaches the node between this CAS reading the key and merging the function's output
		}
		now := time.Now()
		usedNow = now.Unix()
		effect = nil
		if !c.partition {
			d := ring.GetOrCreateRingDesc(in)
			cur, exists := d.Ingesters[s.inst]
			refCur, _ := vis(s.inst)
			switch s.op {
			case opReg:
				d.Ingesters[s.inst] = ring.InstanceDesc{Id: s.inst, Addr: s.inst, Zone: "z", State: ring.ACTIVE, Timestamp: usedNow, Tokens: tokensOf[s.inst], RegisteredTimestamp: usedNow}
				t := usedNow
				effect = func() { nd.ref.join(refState{s.inst: instEnt(ring.ACTIVE, t, tokensOf[s.inst])}) }
			case opHeartbeat, opLeave:
				if !exists {
					return nil, false, nil
				}
				if s.op == opLeave {
					cur.State = ring.LEAVING
				}
				cur.Timestamp = usedNow
				d.Ingesters[s.inst] = cur
				e := instEnt(cur.State, usedNow, cur.Tokens)
				_ = refCur
				effect = func() { nd.ref.join(refState{s.inst: e}) }
			case opRemove:
				if !exists {
					return nil, false, nil
				}
				delete(d.Ingesters, s.inst)
				effect = func() { nd.ref[s.inst] = ent{time.Now().Unix(), true, "LEFT[]"} }
			case opReplace:
				// one CAS removes the instance and registers its replacement "z": the ring does not shrink
				if !exists {
					return nil, false, nil
				}
				delete(d.Ingesters, s.inst)
				d.Ingesters["z"] = ring.InstanceDesc{Id: "z", Addr: "z", Zone: "z", State: ring.ACTIVE, Timestamp: usedNow, Tokens: tokensOf["z"], RegisteredTimestamp: usedNow}
				t := usedNow
				effect = func() {
					nd.ref[s.inst] = ent{time.Now().Unix(), true, "LEFT[]"}
					nd.ref.join(refState{"z": instEnt(ring.ACTIVE, t, tokensOf["z"])})
				}
			}
			return d, true, nil
		}
		d := ring.GetOrCreatePartitionRingDesc(in)
		const pid = int32(1)
		switch s.op {
		case "add-partition":
			if d.HasPartition(pid) {
				return nil, false, nil
			}
			d.AddPartition(pid, ring.PartitionPending, now)
			t := usedNow
			effect = func() {
				nd.ref.join(refState{"p1.state": {t, false, ring.PartitionPending.String()}, "p1.lock": {0, false, "false"}})
			}
		case "set-active", "set-inactive":
			st := ring.PartitionActive
			if s.op == "set-inactive" {
				st = ring.PartitionInactive
			}
			changed, err := d.UpdatePartitionState(pid, st, now)
			if err != nil || !changed {
				return nil, false, nil
			}
			t := usedNow
			effect = func() { nd.ref.join(refState{"p1.state": {t, false, st.String()}}) }
		case "lock", "unlock":
			if !d.UpdatePartitionStateChangeLock(pid, s.op == "lock", now) {
				return nil, false, nil
			}
			t := usedNow
			effect = func() { nd.ref.join(refState{"p1.lock": {t, false, fmt.Sprint(s.op == "lock")}}) }
		case "remove-partition":
			if !d.HasPartition(pid) {
				return nil, false, nil
			}
			d.RemovePartition(pid)
			effect = func() { nd.ref["p1.state"] = ent{time.Now().Unix(), true, ring.PartitionDeleted.String()} }
		case "add-owner":
			if !d.AddOrUpdateOwner(s.inst, ring.OwnerActive, pid, now) {
				return nil, false, nil
			}
			t := usedNow
			effect = func() { nd.ref.join(refState{"o:" + s.inst: {t, false, fmt.Sprintf("p%d %s", pid, ring.OwnerActive)}}) }
		case "remove-owner":
			if !d.RemoveOwner(s.inst) {
				return nil, false, nil
			}
			effect = func() {
				nd.ref["o:"+s.inst] = ent{time.Now().Unix(), true, fmt.Sprintf("p%d %s", pid, ring.OwnerDeleted)}
			}
		}
		return d, true, nil
	})
	if err != nil {
		c.problem = fmt.Sprintf("%s failed: %v", s, err)
		return
	}
	if effect != nil {
		effect()
	}
}

// apply runs one event; returns false if the event is not enabled in this state.
func (c *cluster) apply(e event) bool {
	before := make([]refState, len(c.nodes))
	for i, n := range c.nodes {
		before[i] = n.ref.clone()
	}
	touched := -1
	switch e.kind {
	case "cas":
		if c.pos >= c.maxCAS || e.a >= len(c.script) {
			return false
		}
		s := c.script[e.a]
		c.pos++
		c.casLog = append(c.casLog, s)
		c.applyCAS(s)
		touched = s.node
	case "casx":
		// the CAS of script step a, with a full-state push from node b landing inside its window (after the CAS read
		// the key, before it merges the function's output): for the reference the push simply comes first
		if c.pos >= c.maxCAS || e.a >= len(c.script) || c.script[e.a].node == e.b {
			return false
		}
		s := c.script[e.a]
		c.pos++
		c.casLog = append(c.casLog, s)
		c.inCAS = func() {
			data := c.nodes[e.b].kv.LocalState(false)
			c.nodes[s.node].kv.MergeRemoteState(data, false)
			c.nodes[s.node].ref.join(c.nodes[e.b].ref)
		}
		c.applyCAS(s)
		c.inCAS = nil
		touched = s.node
	case "deliver":
		if e.a >= len(c.pool) || c.pool[e.a].producer == e.b {
			return false
		}
		c.nodes[e.b].kv.NotifyMsg(c.pool[e.a].data)
		synctest.Wait()
		c.nodes[e.b].ref.join(c.pool[e.a].content)
		touched = e.b
	case "pushpull":
		data := c.nodes[e.a].kv.LocalState(false)
		c.nodes[e.b].kv.MergeRemoteState(data, false)
		synctest.Wait()
		c.nodes[e.b].ref.join(c.nodes[e.a].ref)
		touched = e.b
	case "housekeep":
		c.nodes[e.a].kv.VerifCleanupObsoleteEntries()
	case "restart":
		// the node's process ends (queued broadcasts and the store are gone) and a fresh one takes its place; what it
		// had already handed to the network stays deliverable
		old := c.nodes[e.a]
		old.stopWatch()
		old.kv.VerifShutdown()
		synctest.Wait()
		c.nodes[e.a] = c.mkNode()
	case "tick":
		time.Sleep(time.Second)
	case "jump":
		time.Sleep(retention - time.Second)
	}
	synctest.Wait()
	c.reconcile()
	if touched >= 0 {
		drained := c.drain(touched)
		// forwarding: every entry that changed on the touched node must leave in some broadcast
		for id, en := range c.nodes[touched].ref {
			if old, ok := before[touched][id]; ok && old == en {
				continue
			}
			found := false
			for _, d := range drained {
				if de, ok := d[id]; ok && de == en {
					found = true
				}
			}
			if !found && c.problem == "" {
				c.problem = fmt.Sprintf("node %d changed entry %s to %v but did not queue a broadcast carrying it (drained %v)", touched, id, en, drained)
			}
		}
	}
	return true
}

// reconcile lets the reference follow the one freedom the implementation has: a tombstone that is at least
// as old as the retention may be gone (it is discarded lazily, when the node next merges something). A
// tombstone missing before that age is a violation ("discarded only once older than the retention").
func (c *cluster) reconcile() {
	now := time.Now().Unix()
	for i, n := range c.nodes {
		var real refState
		for id, e := range n.ref {
			if !e.tomb {
				continue
			}
			if real == nil {
				real = c.localState(i)
			}
			if _, ok := real[id]; ok {
				continue
			}
			if age := now - e.ts; age < int64(retention/time.Second) || c.keepForever {
				if c.problem == "" {
					c.problem = fmt.Sprintf("node %d no longer holds the tombstone of %s although it is only %d s old (retention %v)", i, id, age, retention)
				}
				continue
			}
			delete(n.ref, id)
			if strings.HasSuffix(id, ".state") { // a partition's lock register goes with the partition
				delete(n.ref, strings.TrimSuffix(id, ".state")+".lock")
			}
		}
	}
}

// check compares every node with the reference.
func (c *cluster) check() string {
	if c.problem != "" {
		return c.problem
	}
	for i, n := range c.nodes {
		got := c.localState(i).canon(c.base, true)
		want := n.ref.canon(c.base, true)
		if got != want {
			return fmt.Sprintf("node %d state %s, reference (last-writer-wins join of everything it was given) %s", i, got, want)
		}
		vis := c.visible(i)
		if c.problem != "" {
			return c.problem
		}
		if wantVis := n.ref.canon(c.base, false); vis != wantVis {
			return fmt.Sprintf("node %d reader sees %s, reference %s", i, vis, wantVis)
		}
	}
	return ""
}

func (c *cluster) canon() string {
	var sb strings.Builder
	for i := range c.nodes {
		fmt.Fprintf(&sb, "n%d{%s}", i, c.localState(i).canon(c.base, true))
	}
	var ms []string
	for _, p := range c.pool {
		ms = append(ms, fmt.Sprintf("%d:%s", p.producer, p.content.canon(c.base, true)))
	}
	sort.Strings(ms)
	fmt.Fprintf(&sb, "pool%v pos%d clock%+d", ms, c.pos, time.Now().Unix()-c.base)
	return sb.String()
}

// fairSuffix heals everything: all messages to everybody, push-pull all ordered pairs, until fixpoint.
func (c *cluster) fairSuffix() string {
	for round := 0; round < len(c.nodes)+3; round++ {
		before := c.canon()
		for mi := 0; mi < len(c.pool); mi++ {
			for j := range c.nodes {
				c.apply(event{kind: "deliver", a: mi, b: j})
			}
		}
		for i := range c.nodes {
			for j := range c.nodes {
				if i != j {
					c.apply(event{kind: "pushpull", a: i, b: j})
				}
			}
		}
		if c.canon() == before {
			break
		}
	}
	if p := c.check(); p != "" {
		return "during the healing suffix: " + p
	}
	all := refState{}
	for _, n := range c.nodes {
		all.join(n.ref)
	}
	want := all.canon(c.base, false)
	for i, n := range c.nodes {
		if vis := c.visible(i); vis != want {
			return fmt.Sprintf("after healing node %d exposes %s, expected the merged value %s", i, vis, want)
		}
		if n.watchN > 0 || want != "" {
			if n.watchLast != want {
				return fmt.Sprintf("after healing the watcher on node %d was last called with %q, value is %q (calls %d)", i, n.watchLast, want, n.watchN)
			}
		}
	}
	return ""
}

// ---------- BFS ----------

type scenario struct {
	name        string
	nodes       int
	script      []step // alphabet of CAS operations
	maxCAS      int    // at most this many CAS operations per history (every sequence over the alphabet)
	partition   bool   // partition-ring codec and operations instead of the instance ring
	depth       int
	ticks       int
	keepForever bool // retention 0: tombstones are kept (and hidden from readers) for ever
	casx        bool // CAS operations may also be hit by a full-state push inside their window
	restarts    int  // node restarts per history (the restarted node comes back empty)
	jumps       int  // clock jumps of (retention - 1 s): with the 1 s ticks, tombstones reach ages around the retention
}

func (sc scenario) events(poolSize int) []event {
	var evs []event
	for a := range sc.script {
		evs = append(evs, event{kind: "cas", a: a})
	}
	if sc.casx {
		for a := range sc.script {
			evs = append(evs, event{kind: "casx", a: a, b: (sc.script[a].node + 1) % sc.nodes})
		}
	}
	for m := 0; m < poolSize; m++ {
		for j := 0; j < sc.nodes; j++ {
			evs = append(evs, event{kind: "deliver", a: m, b: j})
		}
	}
	for i := 0; i < sc.nodes; i++ {
		for j := 0; j < sc.nodes; j++ {
			if i != j {
				evs = append(evs, event{kind: "pushpull", a: i, b: j})
			}
		}
	}
	// periodic housekeeping of a node (removal of keys marked as deleted): touches nothing else
	for i := 0; i < sc.nodes; i++ {
		evs = append(evs, event{kind: "housekeep", a: i})
	}
	if sc.restarts > 0 {
		for i := 0; i < sc.nodes; i++ {
			evs = append(evs, event{kind: "restart", a: i})
		}
	}
	evs = append(evs, event{kind: "tick"})
	if sc.jumps > 0 {
		evs = append(evs, event{kind: "jump"})
	}
	return evs
}

type result struct {
	ok       bool // event enabled
	canon    string
	problem  string
	converge string
	pool     int
	ticksUse int
}

func replay(t *testing.T, sc scenario, hist []event, converge bool) (res result) {
	synctest.Test(t, func(t *testing.T) {
		c := newCluster(sc.nodes, sc.script, sc.maxCAS, sc.partition, sc.keepForever)
		c.keepForever = sc.keepForever
		defer c.shutdown()
		res.ok = true
		for i, e := range hist {
			if !c.apply(e) {
				res.ok = false
				return
			}
			if i == len(hist)-1 {
				res.problem = c.check()
			}
		}
		res.canon = c.canon()
		res.pool = len(c.pool)
		if res.problem == "" && converge {
			res.converge = c.fairSuffix()
		}
	})
	return
}

func histString(h []event, sc scenario) string {
	var s []string
	for _, e := range h {
		if e.kind == "cas" {
			s = append(s, sc.script[e.a].String())
		} else if e.kind == "casx" {
			s = append(s, sc.script[e.a].String()+fmt.Sprintf("[push from n%d inside its window]", e.b))
		} else {
			s = append(s, e.String())
		}
	}
	return strings.Join(s, " ; ")
}

func bfs(t *testing.T, rep *ev.Report, prop string, sc scenario, converge bool, deadline time.Time) bool {
	type item struct {
		hist     []event
		pool     int
		ticks    int
		jumps    int
		restarts int
	}
	seen := map[string]bool{}
	var mu sync.Mutex
	frontier := []item{{nil, 0, 0, 0, 0}}
	for lvl := 1; lvl <= sc.depth; lvl++ {
		type job struct {
			it item
			e  event
		}
		var jobs []job
		for _, it := range frontier {
			for _, e := range sc.events(it.pool) {
				if e.kind == "tick" && it.ticks >= sc.ticks || e.kind == "jump" && it.jumps >= sc.jumps || e.kind == "restart" && it.restarts >= sc.restarts {
					continue
				}
				jobs = append(jobs, job{it, e})
			}
		}
		var next []item
		var wg sync.WaitGroup
		idx := int64(-1)
		stopped := false
		workers := runtime.GOMAXPROCS(0)
		var imu sync.Mutex
		for w := 0; w < workers; w++ {
			wg.Add(1)
			go func() {
				defer wg.Done()
				for {
					imu.Lock()
					idx++
					i := int(idx)
					imu.Unlock()
					if i >= len(jobs) {
						return
					}
					if ev.WallNow().After(deadline) || rep.NumViolations() >= 10 {
						imu.Lock()
						stopped = true
						imu.Unlock()
						return
					}
					j := jobs[i]
					h := append(append([]event(nil), j.it.hist...), j.e)
					r := replay(t, sc, h, converge)
					if !r.ok {
						continue
					}
					rep.Trans(1)
					rep.Eval(int64(len(h)))
					if r.problem != "" {
						rep.Violate(prop+":"+sc.name+":"+histString(h, sc), fmt.Sprintf("scenario %s, history [%s]: %s", sc.name, histString(h, sc), r.problem), map[string]any{"scenario": sc.name, "history": histString(h, sc)})
						continue
					}
					if r.converge != "" {
						rep.Violate(prop+":conv:"+sc.name+":"+histString(h, sc), fmt.Sprintf("scenario %s, history [%s]: %s", sc.name, histString(h, sc), r.converge), map[string]any{"scenario": sc.name, "history": histString(h, sc)})
						continue
					}
					mu.Lock()
					if !seen[r.canon] {
						seen[r.canon] = true
						tk := j.it.ticks
						if j.e.kind == "tick" {
							tk++
						}
						jp := j.it.jumps
						if j.e.kind == "jump" {
							jp++
						}
						rs := j.it.restarts
						if j.e.kind == "restart" {
							rs++
						}
						next = append(next, item{h, r.pool, tk, jp, rs})
						rep.State(1)
						if strings.Contains(r.canon, "LEFT") || strings.Contains(r.canon, "Deleted") {
							rep.Distinct(sc.name + "|" + r.canon)
						}
						if len(next)%997 == 1 {
							rep.Sample(fmt.Sprintf("%s: [%s] ⇒ %s", sc.name, histString(h, sc), r.canon))
						}
					}
					mu.Unlock()
				}
			}()
		}
		wg.Wait()
		if stopped {
			rep.NotExhaustive(fmt.Sprintf("scenario %s stopped at depth %d (deadline or violation cap)", sc.name, lvl))
			return false
		}
		sort.Slice(next, func(i, j int) bool { return histString(next[i].hist, sc) < histString(next[j].hist, sc) })
		rep.Set(fmt.Sprintf("%s_depth%d_new_states", sc.name, lvl), len(next))
		frontier = next
		if len(frontier) == 0 {
			break
		}
	}
	return true
}

func scenariosC04() []scenario {
	d := 60 // the state space closes (fixpoint) well before
	k := 4
	if ev.Thorough() {
		k = 5
	}
	if v := os.Getenv("VERIF_DEPTH"); v != "" {
		fmt.Sscan(v, &d)
	}
	if v := os.Getenv("VERIF_MAXCAS"); v != "" {
		fmt.Sscan(v, &k)
	}
	// instance x lives on node 0 (its lifecycler writes there); removals may be done anywhere (operator "forget")
	xAlphabet := []step{{0, opReg, "x"}, {0, opHeartbeat, "x"}, {0, opRemove, "x"}, {1, opRemove, "x"}}
	scs := []scenario{
		{name: "x-on-2-nodes", nodes: 2, depth: d, ticks: 3, maxCAS: k, script: xAlphabet},
		// around the retention: one jump of retention-1 s plus the ticks put tombstones at ages 9..12 s
		{name: "x-around-retention", nodes: 2, depth: d, ticks: 3, jumps: 1, maxCAS: 3, script: []step{{0, opReg, "x"}, {0, opRemove, "x"}, {1, opRemove, "x"}}},
		{name: "owner-around-retention", nodes: 2, depth: d, ticks: 2, jumps: 1, maxCAS: 3, partition: true, script: []step{{0, "add-partition", ""}, {0, "add-owner", "o"}, {0, "remove-owner", "o"}, {0, "remove-partition", ""}}},
		{name: "x-leaving-with-bystander", nodes: 2, depth: d, ticks: 1, maxCAS: k, script: []step{{0, opReg, "x"}, {1, opReg, "y"}, {0, opLeave, "x"}, {0, opRemove, "x"}, {1, opRemove, "x"}}},
		// retention 0 = keep tombstones for ever: still hidden from readers, still blocking resurrection, also after a clock jump
		{name: "x-kept-for-ever", nodes: 2, depth: d, ticks: 1, jumps: 1, maxCAS: 3, keepForever: true, script: []step{{0, opReg, "x"}, {0, opRemove, "x"}, {1, opRemove, "x"}}},
		{name: "owner-kept-for-ever", nodes: 2, depth: d, ticks: 1, maxCAS: 3, keepForever: true, partition: true, script: []step{{0, "add-partition", ""}, {0, "add-owner", "o"}, {0, "remove-owner", "o"}}},
		{name: "x-replaced-by-z", nodes: 2, depth: d, ticks: 1, maxCAS: 3, script: []step{{0, opReg, "x"}, {0, opHeartbeat, "x"}, {0, opReplace, "x"}, {1, opReplace, "x"}}},
		// partition ring: owner and partition tombstones (the owner's lifecycler writes on node 0; removals anywhere)
		{name: "partition-owner-removal", nodes: 2, depth: d, ticks: 1, maxCAS: k, partition: true, script: []step{{0, "add-partition", ""}, {0, "add-owner", "o"}, {0, "remove-owner", "o"}, {1, "remove-owner", "o"}}},
		{name: "partition-removal", nodes: 2, depth: d, ticks: 1, maxCAS: k, partition: true, script: []step{{0, "add-partition", ""}, {0, "set-active", ""}, {0, "remove-partition", ""}, {1, "remove-partition", ""}, {0, "add-owner", "o"}}},
	}
	if ev.Thorough() {
		scs = append(scs, scenario{name: "x-on-3-nodes", nodes: 3, depth: d, ticks: 2, maxCAS: 4, script: []step{{0, opReg, "x"}, {0, opRemove, "x"}, {1, opRemove, "x"}, {2, opRemove, "x"}}})
	}
	return scs
}

func TestC04(t *testing.T) {
	rep := ev.NewReport("C04", "tombstones")
	scs := scenariosC04()
	rep.Bound = fmt.Sprintf("%d scenarios on 2 (thorough also 3) real detached memberlist.KV nodes with the ring codec and the partition-ring codec; events: ANY CAS from the scenario's alphabet (register / heartbeat / leaving / remove of an instance, add / activate / remove of a partition, add / remove of a partition owner, on given nodes; every sequence of up to "+fmt.Sprint(scs[0].maxCAS)+" of them), delivery of ANY message ever produced to any other node (any number of times, any order), full-state push to any node, clock +1s (<=2); all histories up to depth %d (the search reaches its fixpoint earlier: the bound is the number of CAS operations and ticks); retention 10s is never reached", len(scs), scs[0].depth)
	rep.Rule = "BFS with canonical-state deduplication (stores incl. tombstones, message pool, script position, clock); in every state: each node's stored state ≡ last-writer-wins join (removal wins ties) of everything it was given, readers never see a tombstone and see exactly the non-removed entries of that join (so no earlier message resurrects a removed entry), every change incl. tombstones is re-broadcast; distinct_nontrivial = distinct states containing a tombstone"
	deadline := ev.Deadline(8 * time.Minute)
	for _, sc := range scs {
		if !bfs(t, rep, "C04", sc, false, deadline) {
			break
		}
	}
	rep.Trace(rep.Transitions)
	if err := rep.Write(); err != nil {
		t.Fatal(err)
	}
}

// ---------------- C06 ----------------

func scenariosC06() []scenario {
	d := 60
	k := 4
	if ev.Thorough() {
		k = 5
	}
	if v := os.Getenv("VERIF_MAXCAS"); v != "" {
		fmt.Sscan(v, &k)
	}
	// workload discipline (the CRDT proviso): every register has one writing node, removals may come from anywhere
	scs := []scenario{
		{name: "two-lifecyclers", nodes: 2, depth: d, ticks: 1, maxCAS: k, script: []step{{0, opReg, "x"}, {0, opHeartbeat, "x"}, {1, opReg, "y"}, {1, opLeave, "y"}, {1, opRemove, "x"}, {0, opRemove, "x"}}},
		{name: "partition-editor", nodes: 2, depth: d, ticks: 1, maxCAS: k, partition: true, script: []step{{0, "add-partition", ""}, {0, "set-active", ""}, {0, "set-inactive", ""}, {1, "lock", ""}, {1, "add-owner", "o"}, {0, "remove-owner", "o"}, {1, "remove-partition", ""}}},
	}
	// a full-state push may land inside the window of a CAS (between its read of the key and its merge)
	scs = append(scs, scenario{name: "two-lifecyclers-push-inside-cas", nodes: 2, depth: d, ticks: 1, maxCAS: 3, casx: true, script: []step{{0, opReg, "x"}, {0, opHeartbeat, "x"}, {1, opReg, "y"}, {1, opRemove, "x"}}})
	// a node's process may end once per history and come back empty (quantifier: "node restarts")
	scs = append(scs, scenario{name: "two-lifecyclers-restart", nodes: 2, depth: d, ticks: 1, maxCAS: 3, restarts: 1, script: []step{{0, opReg, "x"}, {0, opHeartbeat, "x"}, {1, opReg, "y"}, {1, opRemove, "x"}}})
	if ev.Thorough() {
		scs = append(scs,
			scenario{name: "three-nodes", nodes: 3, depth: d, ticks: 1, maxCAS: 3, script: []step{{0, opReg, "x"}, {1, opReg, "y"}, {2, opRemove, "x"}, {0, opLeave, "x"}}},
			scenario{name: "partition-three-nodes", nodes: 3, depth: d, ticks: 1, maxCAS: 3, partition: true, script: []step{{0, "add-partition", ""}, {0, "set-active", ""}, {1, "lock", ""}, {2, "remove-partition", ""}, {2, "add-owner", "o"}}},
		)
	}
	return scs
}

func TestC06Convergence(t *testing.T) {
	rep := ev.NewReport("C06", "convergence")
	scs := scenariosC06()
	rep.Bound = fmt.Sprintf("%d scenarios on 2 (thorough also 3) real detached memberlist.KV nodes (ring codec and partition-ring codec): every sequence of up to %d CAS operations over the scenario's alphabet issued on its nodes, interleaved in every way with delivery of any produced message to any node (loss, delay, duplication, reordering), push of a node's full state to another, housekeeping, a clock tick and (one scenario) one restart of either node, which comes back empty; search runs to its fixpoint", len(scs), scs[0].maxCAS)
	rep.Rule = "BFS with canonical-state deduplication; in EVERY reachable state (a) each node ≡ last-writer-wins join of what it was given, no tombstone visible, every change re-broadcast, and (b) the deterministic healing suffix (all messages to all nodes, full-state exchange between all ordered pairs, to fixpoint) is run and must end with all nodes exposing the same merged value, every acknowledged CAS reflected in it, and every watcher last called with it; distinct_nontrivial = distinct states containing a tombstone"
	deadline := ev.Deadline(8 * time.Minute)
	for _, sc := range scs {
		if !bfs(t, rep, "C06", sc, true, deadline) {
			break
		}
	}
	rep.Trace(rep.Transitions)
	if err := rep.Write(); err != nil {
		t.Fatal(err)
	}
}

// wellFormed: the bytes are a KV pair with a non-empty valid-UTF-8 key, a registered codec and a value that decodes.
func wellFormed(data []byte) bool {
	var p memberlist.KeyValuePair
	if err := p.Unmarshal(data); err != nil || p.Key == "" || !utf8.ValidString(p.Key) {
		return false
	}
	var cd codec.Codec
	switch p.Codec {
	case ring.GetCodec().CodecID():
		cd = ring.GetCodec()
	case ring.GetPartitionRingCodec().CodecID():
		cd = ring.GetPartitionRingCodec()
	default:
		return false
	}
	val := p.Value
	if len(val) == 0 {
		return true // an empty value stands for "no content" and is accepted
	}
	_, err := cd.Decode(val)
	return err == nil
}

// snapshot of everything observable on a node
func (c *cluster) snapshot(i int) string {
	l, g := c.nodes[i].kv.VerifNumQueued()
	return fmt.Sprintf("%s|q%d,%d|w%d:%s", c.localState(i).canon(c.base, true), l, g, c.nodes[i].watchN, c.nodes[i].watchLast)
}

// TestC06Malformed: every truncation and every single-byte substitution (0x00 / 0xFF) of every message
// and of a full-state blob, delivered to a node in several base states: a message that does not decode
// leaves the node untouched; nothing ever panics.
func TestC06Malformed(t *testing.T) {
	rep := ev.NewReport("C06", "malformed")
	rep.Bound = "base states: after register / register+remove on the sender (receiver empty, or already holding the entry); every truncation length and every single-byte substitution by 0x00 and 0xFF of every broadcast message and of the full-state blob; plus unknown codec id, empty key, empty message"
	rep.Rule = "deliver the mutated bytes through NotifyMsg / MergeRemoteState on the real node: if the bytes do not decode (judged independently with the same codecs) the receiver's store, queues and watcher are unchanged; in every case no panic and readers see no tombstone; distinct_nontrivial = distinct mutated inputs that did not decode"
	type base struct {
		name   string
		script []step
		prime  bool // receiver already has the first message
	}
	bases := []base{
		{"register", []step{{0, opReg, "x"}}, false},
		{"register-remove", []step{{0, opReg, "x"}, {0, opRemove, "x"}}, false},
		{"register-remove-primed", []step{{0, opReg, "x"}, {0, opRemove, "x"}}, true},
	}
	for _, b := range bases {
		// collect the messages once
		var msgs [][]byte
		var blob []byte
		synctest.Test(t, func(t *testing.T) {
			c := newCluster(2, b.script, 10, false)
			defer c.shutdown()
			for i := range b.script {
				c.apply(event{kind: "cas", a: i})
			}
			for _, p := range c.pool {
				msgs = append(msgs, p.data)
			}
			blob = c.nodes[0].kv.LocalState(false)
		})
		type mut struct {
			data  []byte
			state bool
			what  string
		}
		var muts []mut
		add := func(src []byte, state bool, label string) {
			for l := 0; l < len(src); l++ {
				muts = append(muts, mut{append([]byte(nil), src[:l]...), state, fmt.Sprintf("%s truncated to %d", label, l)})
			}
			for i := range src {
				for _, v := range []byte{0x00, 0xFF} {
					if src[i] == v {
						continue
					}
					d := append([]byte(nil), src...)
					d[i] = v
					muts = append(muts, mut{d, state, fmt.Sprintf("%s byte %d := %#x", label, i, v)})
				}
			}
		}
		for mi, m := range msgs {
			add(m, false, fmt.Sprintf("message %d", mi))
		}
		add(blob, true, "full state")
		pair := memberlist.KeyValuePair{Key: ringKey, Value: []byte{1, 2, 3}, Codec: "no-such-codec"}
		bad, _ := pair.Marshal()
		muts = append(muts, mut{bad, false, "unknown codec"})
		pair = memberlist.KeyValuePair{Key: "", Value: msgs[0], Codec: ring.GetCodec().CodecID()}
		bad, _ = pair.Marshal()
		muts = append(muts, mut{bad, false, "empty key"})
		// all mutations against one fresh receiver each
		var wg sync.WaitGroup
		idx := int64(-1)
		var imu sync.Mutex
		for w := 0; w < runtime.GOMAXPROCS(0); w++ {
			wg.Add(1)
			go func() {
				defer wg.Done()
				for {
					imu.Lock()
					idx++
					k := int(idx)
					imu.Unlock()
					if k >= len(muts) || rep.NumViolations() >= 10 {
						return
					}
					m := muts[k]
					synctest.Test(t, func(t *testing.T) {
						c := newCluster(2, b.script, 10, false)
						defer c.shutdown()
						if b.prime {
							c.nodes[1].kv.NotifyMsg(msgs[0])
							synctest.Wait()
							c.drain(1)
						}
						before := c.snapshot(1)
						decodes := false
						if !m.state {
							decodes = wellFormed(m.data)
						} else {
							// a state blob "decodes" if at least its first pair is intact
							if len(m.data) >= 4 {
								l := int(uint32(m.data[0])<<24 | uint32(m.data[1])<<16 | uint32(m.data[2])<<8 | uint32(m.data[3]))
								if l <= len(m.data)-4 {
									decodes = wellFormed(m.data[4 : 4+l])
								}
							}
						}
						var perr any
						func() {
							defer func() { perr = recover() }()
							if m.state {
								c.nodes[1].kv.MergeRemoteState(m.data, false)
							} else {
								c.nodes[1].kv.NotifyMsg(m.data)
							}
						}()
						synctest.Wait()
						rep.Eval(1)
						rep.Trans(1)
						cs := fmt.Sprintf("%s: %s", b.name, m.what)
						if perr != nil {
							rep.Violate("C06:malformed:panic:"+cs, fmt.Sprintf("%s: panic %v", cs, perr), nil)
							return
						}
						after := c.snapshot(1)
						if !decodes {
							rep.Distinct(cs)
							if after != before {
								rep.Violate("C06:malformed:changed:"+cs, fmt.Sprintf("%s does not decode but changed the receiver from %s to %s", cs, before, after), nil)
							}
						}
						c.visible(1)
						if c.problem != "" {
							rep.Violate("C06:malformed:tomb:"+cs, cs+": "+c.problem, nil)
						}
						if k%211 == 0 {
							rep.Sample(cs)
						}
					})
				}
			}()
		}
		wg.Wait()
		rep.State(int64(len(muts)))
	}
	rep.Trace(rep.Transitions)
	if err := rep.Write(); err != nil {
		t.Fatal(err)
	}
}

// TestC06Invalidates: exhaustive over (key, content set, version)² : a queued update may be superseded
// only by an update for the same key whose content contains it and whose version is not older.
func TestC06Invalidates(t *testing.T) {
	rep := ev.NewReport("C06", "invalidation")
	rep.Bound = "keys {k1,k2} × content sets over {a,b,c} (incl. empty, also with a duplicated name) × versions 1..3, all ordered pairs"
	rep.Rule = "real ringBroadcast.Invalidates(new, old) == (same key ∧ content(old) ⊆ content(new) ∧ version(new) >= version(old)); distinct_nontrivial = pairs where invalidation holds"
	names := []string{"a", "b", "c"}
	var contents [][]string
	for m := 0; m < 8; m++ {
		var c []string
		for i, n := range names {
			if m&(1<<i) != 0 {
				c = append(c, n)
			}
		}
		contents = append(contents, c)
	}
	contents = append(contents, []string{"a", "a"}, []string{"b", "a"})
	for _, k1 := range []string{"k1", "k2"} {
		for _, k2 := range []string{"k1", "k2"} {
			for _, c1 := range contents {
				for _, c2 := range contents {
					for v1 := uint(1); v1 <= 3; v1++ {
						for v2 := uint(1); v2 <= 3; v2++ {
							got := memberlist.VerifInvalidates(k1, c1, v1, k2, c2, v2)
							sub := true
							for _, o := range c2 {
								f := false
								for _, n := range c1 {
									if n == o {
										f = true
									}
								}
								if !f {
									sub = false
								}
							}
							want := k1 == k2 && sub && v1 >= v2
							rep.Eval(1)
							rep.Trans(1)
							if got != want {
								rep.Violate(fmt.Sprintf("C06:inval:%s%v%d/%s%v%d", k1, c1, v1, k2, c2, v2), fmt.Sprintf("Invalidates(new{%s %v v%d}, old{%s %v v%d}) = %v, want %v", k1, c1, v1, k2, c2, v2, got, want), nil)
							}
							if want {
								rep.Distinct(fmt.Sprintf("%s%v%d/%s%v%d", k1, c1, v1, k2, c2, v2))
							}
						}
					}
				}
			}
		}
	}
	rep.State(rep.Evaluations)
	rep.Sample("Invalidates(new{k1 [a b] v2}, old{k1 [a] v1}) = true")
	rep.Trace(rep.Transitions)
	if err := rep.Write(); err != nil {
		t.Fatal(err)
	}
}

// TestC06Queue: several local changes accumulate in the broadcast queues before anything is transmitted
// (so queued updates invalidate each other), then a gossip-only, loss-free exchange (no full-state sync)
// must bring the other node to the same value: a queued update dropped by one that does not contain it
// would leave the peer behind.
func TestC06Queue(t *testing.T) {
	rep := ev.NewReport("C06", "queued-gossip")
	rep.Bound = "every sequence of 1..4 CAS operations over {register x, heartbeat x, register y, leaving y, remove x} on node 0 with clock ticks between them (0 or 1 s), nothing transmitted meanwhile; then gossip-only loss-free delivery to node 1"
	rep.Rule = "after delivering exactly what GetBroadcasts hands out (real queue with invalidation), node 1's state ≡ node 0's state; distinct_nontrivial = sequences in which the queue held fewer messages than CAS operations were acknowledged (an invalidation happened)"
	alphabet := []step{{0, opReg, "x"}, {0, opHeartbeat, "x"}, {0, opReg, "y"}, {0, opLeave, "y"}, {0, opRemove, "x"}}
	var seqs [][]int
	var gen func(cur []int)
	gen = func(cur []int) {
		if len(cur) > 0 {
			seqs = append(seqs, append([]int(nil), cur...))
		}
		if len(cur) == 4 {
			return
		}
		for a := range alphabet {
			gen(append(cur, a))
		}
	}
	gen(nil)
	var wg sync.WaitGroup
	idx := int64(-1)
	var imu sync.Mutex
	for w := 0; w < runtime.GOMAXPROCS(0); w++ {
		wg.Add(1)
		go func() {
			defer wg.Done()
			for {
				imu.Lock()
				idx++
				k := int(idx)
				imu.Unlock()
				if k >= len(seqs)*2 || rep.NumViolations() >= 10 {
					return
				}
				seq, tick := seqs[k/2], k%2 == 1
				synctest.Test(t, func(t *testing.T) {
					c := newCluster(2, alphabet, 10, false)
					defer c.shutdown()
					var names []string
					for _, a := range seq {
						c.pos++
						c.applyCAS(alphabet[a]) // no drain: messages stay queued and may invalidate each other
						names = append(names, alphabet[a].String())
						if tick {
							time.Sleep(time.Second)
						}
					}
					lq, _ := c.nodes[0].kv.VerifNumQueued()
					c.drain(0)
					for mi := range c.pool {
						c.nodes[1].kv.NotifyMsg(c.pool[mi].data)
						synctest.Wait()
					}
					rep.Eval(1)
					rep.Trans(int64(len(seq)))
					a, b := c.localState(0).canon(c.base, true), c.localState(1).canon(c.base, true)
					if a != b {
						rep.Violate("C06:queue:"+strings.Join(names, ","), fmt.Sprintf("after [%s] (tick=%v) on node 0 and loss-free gossip of its %d queued messages, node 1 holds %s but node 0 holds %s", strings.Join(names, " ; "), tick, lq, b, a), nil)
					}
					if lq < len(seq) {
						rep.Distinct(strings.Join(names, ",") + fmt.Sprint(tick))
					}
					if k%97 == 0 {
						rep.Sample(fmt.Sprintf("[%s] tick=%v queued=%d ⇒ %s", strings.Join(names, " ; "), tick, lq, a))
					}
				})
			}
		}()
	}
	wg.Wait()
	rep.State(int64(len(seqs) * 2))
	rep.Trace(rep.Transitions)
	if err := rep.Write(); err != nil {
		t.Fatal(err)
	}
}
