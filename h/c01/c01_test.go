// C01 — key lookup = consistent-hash replica set + exact quorum slack.
// Engine E1: every ring descriptor of a small universe × every boundary key × every operation
// × RF × zone-awareness, real Ring.Get against an independent linear-scan specification.
package c01

import (
	"errors"
	"fmt"
	"sort"
	"strings"
	"sync"
	"testing"
	"time"

	"github.com/go-kit/log"
	"github.com/grafana/dskit/ring"

	"verif/enum"
	"verif/ev"
	"verif/pre"
)

const M = ^uint32(0)

const hbTimeout = 60 * time.Second

// health classes
const (
	clsActive = iota // ACTIVE, heartbeat exactly hbTimeout old (the <= boundary: healthy)
	clsStale         // ACTIVE, heartbeat hbTimeout+1s old
	clsLeaving
	clsPending
	clsJoining
	clsActiveRO  // ACTIVE, read-only (must not matter to a lookup)
	clsLeavingRO // LEAVING, read-only (the usual scale-down sequence)
	clsLeft
	numCls
)

var clsName = []string{"A", "As", "L", "P", "J", "Aro", "Lro", "X"}

func clsState(c int) ring.InstanceState {
	switch c {
	case clsActive, clsStale, clsActiveRO:
		return ring.ACTIVE
	case clsLeaving, clsLeavingRO:
		return ring.LEAVING
	case clsPending:
		return ring.PENDING
	case clsJoining:
		return ring.JOINING
	}
	return ring.LEFT
}

type inst struct {
	id     string
	zone   string
	cls    int
	tokens []uint32
}

type ringCase struct {
	insts []inst
}

func (rc ringCase) String() string {
	var sb strings.Builder
	for _, in := range rc.insts {
		fmt.Fprintf(&sb, "%s[z=%q %s t=%v] ", in.id, in.zone, clsName[in.cls], in.tokens)
	}
	return sb.String()
}

func (rc ringCase) desc(now time.Time) *ring.Desc {
	d := ring.NewDesc()
	for k, in := range rc.insts {
		// healthy = the oldest heartbeat second that is still within the timeout, stale = the second before it
		// (heartbeats have one-second resolution; `now` may have a sub-second part)
		th := now.Add(-hbTimeout)
		ts := th.Unix()
		if th.Nanosecond() > 0 {
			ts++
		}
		if in.cls == clsStale {
			ts--
		}
		// token lists as an instance may have registered them: every second instance lists its tokens in descending order
		// (the ring accepts unsorted lists and must treat them as the set they are)
		toks := append([]uint32(nil), in.tokens...)
		if k%2 == 1 {
			for i, j := 0, len(toks)-1; i < j; i, j = i+1, j-1 {
				toks[i], toks[j] = toks[j], toks[i]
			}
		}
		d.Ingesters[in.id] = ring.InstanceDesc{
			Id: in.id, Addr: "addr-" + in.id, Zone: in.zone, State: clsState(in.cls),
			Timestamp: ts, Tokens: toks, RegisteredTimestamp: now.Unix(),
			ReadOnly: in.cls == clsActiveRO || in.cls == clsLeavingRO,
		}
		if in.cls == clsActiveRO || in.cls == clsLeavingRO {
			x := d.Ingesters[in.id]
			x.ReadOnlyUpdatedTimestamp = now.Unix()
			d.Ingesters[in.id] = x
		}
	}
	return d
}

var ops = []struct {
	name string
	op   ring.Operation
}{{"Write", ring.Write}, {"WriteNoExtend", ring.WriteNoExtend}, {"Read", ring.Read}, {"Reporting", ring.Reporting}}

// ---- independent specification (the statement of C01, read literally) ----

func specHealthyState(opName string, s ring.InstanceState) bool {
	switch opName {
	case "Write", "WriteNoExtend":
		return s == ring.ACTIVE
	case "Read":
		return s == ring.ACTIVE || s == ring.PENDING || s == ring.LEAVING
	}
	return true // Reporting
}

func specExtends(opName string, s ring.InstanceState) bool {
	switch opName {
	case "Write":
		return s != ring.ACTIVE
	case "Read":
		return s != ring.ACTIVE && s != ring.LEAVING
	}
	return false
}

type specResult struct {
	empty     bool
	walked    []string
	healthy   []string
	err       bool
	maxErrors int
}

type tok struct {
	t     uint32
	owner int
}

type spec struct {
	rc   ringCase
	toks []tok
}

func newSpec(rc ringCase) *spec {
	var toks []tok
	for i, in := range rc.insts {
		for _, t := range in.tokens {
			toks = append(toks, tok{t, i})
		}
	}
	sort.Slice(toks, func(i, j int) bool { return toks[i].t < toks[j].t })
	return &spec{rc: rc, toks: toks}
}

func (sp *spec) lookup(key uint32, opName string, rf int, za bool) specResult {
	rc, toks := sp.rc, sp.toks
	if len(toks) == 0 {
		return specResult{empty: true}
	}
	start := 0 // first token strictly greater than key, wrapping to the smallest
	for i, t := range toks {
		if t.t > key {
			start = i
			break
		}
	}
	target := rf
	var taken [8]bool
	zoneFull := map[string]int{}
	var walked []int
	for k := 0; k < len(toks); k++ {
		lim := target
		if len(rc.insts) < lim {
			lim = len(rc.insts)
		}
		if len(walked) >= lim {
			break
		}
		o := toks[(start+k)%len(toks)].owner
		if taken[o] {
			continue
		}
		in := rc.insts[o]
		if za && in.zone != "" && zoneFull[in.zone] >= 1 {
			continue // this zone already contributed its (non-extending) member
		}
		taken[o] = true
		walked = append(walked, o)
		if specExtends(opName, clsState(in.cls)) {
			target++
		} else if za && in.zone != "" {
			zoneFull[in.zone]++
		}
	}
	res := specResult{}
	for _, o := range walked {
		in := rc.insts[o]
		res.walked = append(res.walked, in.id)
		if in.cls != clsStale && specHealthyState(opName, clsState(in.cls)) {
			res.healthy = append(res.healthy, in.id)
		}
	}
	n := rf
	if len(walked) > n {
		n = len(walked)
	}
	need := n/2 + 1
	if len(res.healthy) < need {
		res.err = true
		return res
	}
	res.maxErrors = len(res.healthy) - need
	sort.Strings(res.healthy)
	return res
}

// ---- universe ----

type universe struct {
	tokAlpha []uint32
	zones    []string
	maxInst  int
	maxTok   int // per instance
	rfs      []int
	cls      int // number of health classes used (7 drops LEFT, which every built-in op treats like JOINING)
}

func getUniverse() universe {
	if ev.Thorough() {
		return universe{tokAlpha: []uint32{0, 1, 7, M - 1, M}, zones: []string{"", "a", "b"}, maxInst: 4, maxTok: 2, rfs: []int{1, 2, 3, 4, 5}, cls: 8}
	}
	return universe{tokAlpha: []uint32{0, 1, 7, M}, zones: []string{"", "a", "b"}, maxInst: 3, maxTok: 2, rfs: []int{1, 2, 3}, cls: 7}
}

// enumerate rings with n instances: token→owner assignment (owner 0 = nobody) × per-instance
// (zone, class) in non-decreasing order (instances are interchangeable: ids are compared only
// for equality, and every token assignment over labelled owners is enumerated).
func ringsOfSize(u universe, n int) (count int, at func(i int) (ringCase, bool)) {
	nTok := len(u.tokAlpha)
	perInst := len(u.zones) * u.cls
	radix := make([]int, 0, nTok+n)
	for i := 0; i < nTok; i++ {
		radix = append(radix, n+1)
	}
	for i := 0; i < n; i++ {
		radix = append(radix, perInst)
	}
	count = enum.Size(radix)
	at = func(idx int) (ringCase, bool) {
		v := make([]int, len(radix))
		enum.Decode(idx, radix, v)
		for i := 1; i < n; i++ {
			if v[nTok+i] < v[nTok+i-1] {
				return ringCase{}, false
			}
		}
		rc := ringCase{insts: make([]inst, n)}
		for i := 0; i < n; i++ {
			zc := v[nTok+i]
			rc.insts[i] = inst{id: fmt.Sprintf("i%d", i), zone: u.zones[zc/u.cls], cls: zc % u.cls}
		}
		for ti := 0; ti < nTok; ti++ {
			o := v[ti]
			if o == 0 {
				continue
			}
			in := &rc.insts[o-1]
			if len(in.tokens) >= u.maxTok {
				return ringCase{}, false
			}
			in.tokens = append(in.tokens, u.tokAlpha[ti])
		}
		return rc, true
	}
	return
}

func boundaryKeys(rc ringCase) []uint32 {
	set := map[uint32]bool{0: true, 1: true, M - 1: true, M: true}
	for _, in := range rc.insts {
		for _, t := range in.tokens {
			set[t-1] = true
			set[t] = true
			set[t+1] = true
		}
	}
	keys := make([]uint32, 0, len(set))
	for k := range set {
		keys = append(keys, k)
	}
	sort.Slice(keys, func(i, j int) bool { return keys[i] < keys[j] })
	return keys
}

func ids(rs ring.ReplicationSet) []string {
	out := make([]string, 0, len(rs.Instances))
	for _, i := range rs.Instances {
		out = append(out, i.Id)
	}
	sort.Strings(out)
	return out
}

func eqStrs(a, b []string) bool {
	if len(a) != len(b) {
		return false
	}
	for i := range a {
		if a[i] != b[i] {
			return false
		}
	}
	return true
}

type replayCase struct {
	Ring string `json:"ring"`
	Key  uint32 `json:"key"`
	Op   string `json:"op"`
	RF   int    `json:"rf"`
	ZA   bool   `json:"zone_aware"`
	Bufs string `json:"buffers"`
	N    int    `json:"n"`
	Idx  int    `json:"idx"`
}

// ringSet is a worker-local set of long-lived ring clients, one per (rf, zone-awareness).
// Before every case the client is fed an empty descriptor, so the case's descriptor is always
// indexed from scratch (RingCompare sees a different instance count) and a case replays alone.
type ringSet struct{ rings map[[2]int]*ring.Ring }

var ringPool = sync.Pool{New: func() any { return &ringSet{rings: map[[2]int]*ring.Ring{}} }}

func (rs *ringSet) get(rf int, za bool) *ring.Ring {
	k := [2]int{rf, 0}
	if za {
		k[1] = 1
	}
	r := rs.rings[k]
	if r == nil {
		r = newRing(rf, za)
		rs.rings[k] = r
	}
	r.VerifUpdateRingState(ring.NewDesc())
	return r
}

func newRing(rf int, za bool) *ring.Ring {
	cfg := ring.Config{HeartbeatTimeout: hbTimeout, ReplicationFactor: rf, ZoneAwarenessEnabled: za, SubringCacheDisabled: true}
	r, err := ring.NewWithStoreClientAndStrategy(cfg, "c01", "ring", nil, ring.NewDefaultReplicationStrategy(), nil, log.NewNopLogger())
	if err != nil {
		panic(err)
	}
	return r
}

// checkRing runs every (rf, za, op, key, buffers) on one descriptor. Returns number of evaluations.
func checkRing(u universe, rc ringCase, n, idx int, rep *ev.Report, now time.Time) int64 {
	var evals int64
	keys := boundaryKeys(rc)
	bufD, bufH, _ := ring.MakeBuffersForGet()
	rs := ringPool.Get().(*ringSet)
	defer ringPool.Put(rs)
	sp := newSpec(rc)
	for _, rf := range u.rfs {
		for _, za := range []bool{false, true} {
			r := rs.get(rf, za)
			// installed on top of earlier versions of itself: all-ACTIVE (state-only update path), zone-relabelled,
			// token-shifted (see package pre) — answers must be those of the current content all the same
			pre.Install(r, rc.desc(now), now)
			for _, o := range ops {
				for _, key := range keys {
					want := sp.lookup(key, o.name, rf, za)
					for bv := 0; bv < 3; bv++ {
						if bv > 0 && o.name != "Write" && o.name != "Read" {
							continue // buffer variants on the two extending ops only
						}
						var got ring.ReplicationSet
						var err error
						func() {
							defer func() {
								if p := recover(); p != nil {
									err = fmt.Errorf("PANIC: %v", p)
								}
							}()
							switch bv {
							case 0:
								got, err = r.Get(key, o.op, nil, nil, nil)
							case 1: // reused buffers (aliasing between calls)
								got, err = r.Get(key, o.op, bufD, bufH, nil)
							case 2: // undersized host buffer: forces the slice→map switch of the host set
								got, err = r.Get(key, o.op, make([]ring.InstanceDesc, 0, 1), make([]string, 0, 1), nil)
							}
						}()
						evals++
						bad := ""
						switch {
						case err != nil && strings.HasPrefix(err.Error(), "PANIC"):
							bad = err.Error()
						case want.empty:
							if !errors.Is(err, ring.ErrEmptyRing) {
								bad = fmt.Sprintf("ring without tokens: want ErrEmptyRing, got set=%v err=%v", ids(got), err)
							}
						case want.err:
							if err == nil {
								bad = fmt.Sprintf("want error (walked=%v healthy=%v), got set=%v maxErrors=%d", want.walked, want.healthy, ids(got), got.MaxErrors)
							} else if errors.Is(err, ring.ErrEmptyRing) || errors.Is(err, ring.ErrInconsistentTokensInfo) {
								bad = fmt.Sprintf("want too-few-healthy error, got %v", err)
							}
						default:
							if err != nil {
								bad = fmt.Sprintf("want set=%v maxErrors=%d (walked=%v), got err=%v", want.healthy, want.maxErrors, want.walked, err)
							} else if !eqStrs(ids(got), want.healthy) || got.MaxErrors != want.maxErrors {
								bad = fmt.Sprintf("want set=%v maxErrors=%d (walked=%v), got set=%v maxErrors=%d", want.healthy, want.maxErrors, want.walked, ids(got), got.MaxErrors)
							}
						}
						if bad != "" {
							hasM, tokenless := false, false
							for _, in := range rc.insts {
								if len(in.tokens) == 0 {
									tokenless = true
								}
								for _, t := range in.tokens {
									if t == M {
										hasM = true
									}
								}
							}
							key0 := fmt.Sprintf("lookup:%s|key=%d|op=%s|rf=%d|za=%v|buf=%d", rc.String(), key, o.name, rf, za, bv)
							if hasM && tokenless {
								// identity class of finding F3 (token 2^32-1 next to a token-less instance)
								key0 = "F3:tokenMax+tokenless:" + key0
							}
							rep.Violate(key0, fmt.Sprintf("ring %s key=%d op=%s rf=%d zoneAware=%v buffers=%d: %s", rc.String(), key, o.name, rf, za, bv, bad),
								replayCase{Ring: rc.String(), Key: key, Op: o.name, RF: rf, ZA: za, Bufs: fmt.Sprint(bv), N: n, Idx: idx})
						}
					}
				}
			}
		}
	}
	return evals
}

func classify(rc ringCase) string {
	// distinct non-trivial = distinct (shape) classes: which boundary features the ring has
	var f []string
	zones := map[string]bool{}
	for _, in := range rc.insts {
		zones[in.zone] = true
		f = append(f, fmt.Sprintf("%s%d%s", clsName[in.cls], len(in.tokens), in.zone))
	}
	sort.Strings(f)
	return strings.Join(f, ",")
}

func TestC01(t *testing.T) {
	rep := ev.NewReport("C01", "lookup")
	u := getUniverse()
	rep.Bound = fmt.Sprintf("instances 1..%d, tokens/instance 0..%d from %v, zones %q, %d health classes of (ACTIVE with the oldest heartbeat second still within the timeout, ACTIVE one second older — both at a whole-second `now` and, for rings of <=2 instances, half a second later —, LEAVING, PENDING, JOINING, ACTIVE read-only, LEAVING read-only, LEFT), RF %v, zone-awareness on/off, 4 ops, keys t-1,t,t+1 for every token + 0,1,M-1,M, 3 buffer variants; with 4 instances the per-instance alphabet is reduced to 4 tokens {0,1,7,M} and the first 5 classes", u.maxInst, u.maxTok, u.tokAlpha, u.zones, u.cls, u.rfs)
	rep.Rule = "every descriptor of the universe (token→owner assignments × per-instance (zone,class), instances up to permutation) × RF × zone-awareness × op × boundary key × buffer variant, real Ring.Get vs linear-scan specification; distinct_nontrivial = distinct multisets of (class, #tokens, zone) with >=2 instances"
	rep.Assumptions = []string{"keys matter only through comparison with tokens (one representative per gap and per token)", "instance ids matter only through equality"}
	deadline := ev.Deadline(10 * time.Minute)
	enum.Frozen(t, func() {
		now := time.Now()
		for n := 1; n <= u.maxInst; n++ {
			un := u
			if n == 4 {
				// 4 instances (RF 3 + an extension member, more zones than RF): a reduced per-instance alphabet keeps
				// the thorough tier inside its budget — 4 boundary tokens, 6 classes (read-only only on LEAVING)
				un.tokAlpha = []uint32{0, 1, 7, M}
				un.cls = 5
			}
			count, at := ringsOfSize(un, n)
			done := enum.Par(count, deadline, func() bool { return rep.NumViolations() >= 20 }, func(i int) {
				rc, ok := at(i)
				if !ok {
					return
				}
				e := checkRing(un, rc, n, i, rep, now)
				rep.Eval(e)
				rep.State(1)
				rep.Trans(e)
				rep.Trace(e)
				if n >= 2 {
					rep.Distinct(classify(rc))
				}
				if i%(count/3+1) == 0 {
					rep.Sample(rc.String())
				}
			})
			if !done {
				rep.NotExhaustive(fmt.Sprintf("stopped in n=%d (deadline or violation cap)", n))
				break
			}
		}
		// second pass, half a second later: with a sub-second part in `now` the heartbeat that is just too old is only
		// timeout+0.5 s old (rings of up to 2 instances: the threshold arithmetic does not depend on the ring's shape)
		time.Sleep(500 * time.Millisecond)
		now2 := time.Now()
		for n := 1; n <= 2 && n <= u.maxInst; n++ {
			count, at := ringsOfSize(u, n)
			done := enum.Par(count, deadline, func() bool { return rep.NumViolations() >= 20 }, func(i int) {
				rc, ok := at(i)
				if !ok {
					return
				}
				e := checkRing(u, rc, n, i, rep, now2)
				rep.Eval(e)
				rep.State(1)
				rep.Trans(e)
				rep.Trace(e)
			})
			if !done {
				rep.NotExhaustive("stopped in the half-second pass (deadline or violation cap)")
				break
			}
		}
	})
	if err := rep.Write(); err != nil {
		t.Fatal(err)
	}
}
