# property id -> how ./check builds and runs it. One entry per claimed property.
# part: pkg (relative to /verif/h), run (test regexp), shards per tier, budget_s per tier,
#       overlay: [{file: <path under /repo>, rewrite: [import literals replaced by shims]}]
def P(name, pkg, run, shards=None, budget=None, overlay=None, gomaxprocs=None, race=False):
    return {"name": name, "pkg": pkg, "run": run, "race": race,
            "shards": shards or {"quick": 1, "thorough": 1},
            "budget_s": budget or {"quick": 240, "thorough": 1500},
            "overlay": overlay or [], "gomaxprocs": gomaxprocs}

SVC_OV = [{"file": "services/basic_service.go", "rewrite": ['"sync"', '"go.uber.org/atomic"']},
          {"file": "services/manager.go", "rewrite": ['"sync"', '"go.uber.org/atomic"']},
          {"file": "services/failure_watcher.go", "rewrite": ['"sync"']}]

TOK_OV = [{"file": "ring/tokens.go", "rewrite": ['"os"']}]

RS_OV = [{"file": "ring/replication_set.go", "rewrite": ['"sync"']},
         {"file": "ring/replication_set_tracker.go", "rewrite": ['"sync"', '"go.uber.org/atomic"', '"math/rand"']}]

# select-race part: the same files plus the select seam (vsel) in the main loop of DoUntilQuorum
RS_OV_SEL = [{"file": "ring/replication_set.go", "rewrite": ['"sync"'], "add_imports": ['"verif/shim/vsel"'],
          # the main loop's select may find the caller's context done AND a result waiting: which case runs is an
          # explorer choice (optional seams: without them the harness' cancellation window stays narrow enough)
          "subst": [["\tfor !resultTracker.succeeded() {\n\t\tselect {\n\t\tcase <-ctx.Done():\n",
                     "\tfor !resultTracker.succeeded() {\n\t\tvsel.Point(\"loop\")\n\t\tvDone, vRes := ctx.Done(), (<-chan instanceResult[T])(resultsChan)\n\t\tswitch vsel.Two(ctx.Err() != nil, len(resultsChan) > 0) {\n\t\tcase 0:\n\t\t\tvRes = nil\n\t\tcase 1:\n\t\t\tvDone = nil\n\t\t}\n\t\tselect {\n\t\tcase <-vDone:\n", "optional"],
                    ["\t\tcase result := <-resultsChan:\n\t\t\tresultsRemaining--\n", "\t\tcase result := <-vRes:\n\t\t\tresultsRemaining--\n", "optional"]]},
         {"file": "ring/replication_set_tracker.go", "rewrite": ['"sync"', '"go.uber.org/atomic"', '"math/rand"']}]

# multi-set part: the in-flight tracker's mutex stays native. Its lock is taken by the per-instance goroutines BEFORE they reach
# the harness callback that names them, and those goroutines are spawned by two workers running in parallel, so their
# creation order (the only identity an unnamed goroutine has) is not reproducible.
RS_OV_MULTI = [{"file": "ring/replication_set.go", "rewrite": ['"sync"']},
               {"file": "ring/replication_set_tracker.go", "rewrite": ['"go.uber.org/atomic"', '"math/rand"']}]

CHECKS = {
    "C01": {"parts": [P("lookup", "./c01", "^TestC01$")]},
    "C02": {"parts": [P("quorum-intersection", "./c02", "^TestC02$")]},  # + write-executor-criterion (appended below)
    "C03": {"parts": [P("instance-ring", "./c03", "^TestC03Instances$"), P("partition-ring", "./c03", "^TestC03Partitions$")]},
    "C04": {"parts": [P("tombstones", "./gossip", "^TestC04$", budget={"quick": 240, "thorough": 1500})]},
    "C06": {"parts": [P("convergence", "./gossip", "^TestC06Convergence$", budget={"quick": 240, "thorough": 1500}),
                      P("malformed", "./gossip", "^TestC06Malformed$"), P("stateblob", "./gossip", "^TestC06StateBlob$"), P("invalidation", "./gossip", "^TestC06Invalidates$"), P("queued-gossip", "./gossip", "^TestC06Queue$"),
                      P("key-purge", "./gossip", "^TestC06KeyPurge$")]},
    "C05": {"parts": [P("merge-bfs", "./c05", "^TestC05$")]},
    "C07": {"parts": [P("cas-atomicity", "./c07", "^TestC07$", shards={"quick": 16, "thorough": 16}, budget={"quick": 200, "thorough": 1200}, gomaxprocs=1,
                      overlay=[{"file": "kv/consul/mock.go", "rewrite": ['"sync"']},
                               {"file": "kv/etcd/mock.go", "rewrite": ['"sync"']},
                               {"file": "kv/memberlist/memberlist_client.go", "rewrite": ['"sync"', '"go.uber.org/atomic"']},
                               {"file": "kv/multi.go", "rewrite": ['"sync"', '"go.uber.org/atomic"']}])]},
    "C08": {"parts": [P("lifecyclers", "./lifecycle", "^TestC08$", shards={"quick": 16, "thorough": 16}, budget={"quick": 200, "thorough": 1200}, gomaxprocs=1)]},
    "C09": {"level": "fault_enumeration", "parts": [P("crash-and-faults", "./lifecycle", "^TestC09Crash$", shards={"quick": 1, "thorough": 16}, budget={"quick": 240, "thorough": 1200}, gomaxprocs=1, overlay=TOK_OV),
                      P("tokens-file", "./lifecycle", "^TestC09TokensFile$", overlay=TOK_OV)]},
    "C10": {"parts": [P("dobatch", "./c10", "^TestC10$", shards={"quick": 16, "thorough": 16}, budget={"quick": 200, "thorough": 1200}, gomaxprocs=1,
                      overlay=[{"file": "ring/batch.go", "rewrite": ['"sync"', '"go.uber.org/atomic"'], "add_imports": ['"verif/shim/maporder"'],
                                # DoBatch spawns one goroutine per entry of a map: in sorted order here, so that a goroutine that parks
                                # before the harness callback has named it is still the same one in every replay
                                "subst": [["\tfor _, i := range instances {\n\t\ti := i\n", "\tfor _, vk := range maporder.Sorted(instances) {\n\t\ti := instances[vk]\n", "optional"]]}])]},
    "C17": {"parts": [P("single-service", "./c17", "^TestC17Single$", shards={"quick": 8, "thorough": 8}, budget={"quick": 200, "thorough": 1200}, gomaxprocs=1, overlay=SVC_OV),
                      P("manager", "./c17", "^TestC17Manager$", shards={"quick": 6, "thorough": 6}, budget={"quick": 200, "thorough": 1200}, gomaxprocs=1, overlay=SVC_OV),
                      P("idle-timer", "./c17", "^TestC17Timer$", shards={"quick": 2, "thorough": 2}, budget={"quick": 200, "thorough": 900}, gomaxprocs=1, overlay=SVC_OV)]},
    "C11": {"parts": [P("dountilquorum", "./c11", "^TestC11$", shards={"quick": 12, "thorough": 12}, budget={"quick": 300, "thorough": 1200}, gomaxprocs=1, overlay=RS_OV),
                      P("multi-set", "./c11", "^TestC11Multi$", shards={"quick": 4, "thorough": 4}, budget={"quick": 300, "thorough": 1200}, gomaxprocs=1, overlay=RS_OV_MULTI),
                      P("select-race", "./c11", "^TestC11SelectRace$", shards={"quick": 8, "thorough": 12}, budget={"quick": 300, "thorough": 1200}, gomaxprocs=1, overlay=RS_OV_SEL),
                      P("legacy-do", "./c11", "^TestC11Legacy$", shards={"quick": 8, "thorough": 12}, budget={"quick": 300, "thorough": 1200}, gomaxprocs=1, overlay=RS_OV)]},
    "C12": {"parts": [P("instance-shards", "./c12", "^TestC12Instances$"), P("instance-lookback", "./c12", "^TestC12Lookback$"), P("partition-shards", "./c12", "^TestC12Partitions$")]},
    "C13": {"parts": [P("ring-client", "./c13", "^TestC13Ring$"), P("partition-watcher", "./c13", "^TestC13Partitions$"),
                      P("concurrent-readers", "./c13", "^TestC13Concurrent$", shards={"quick": 12, "thorough": 16}, budget={"quick": 200, "thorough": 1200}, gomaxprocs=1,
                        overlay=[{"file": "ring/ring.go", "rewrite": ['"sync"']}])]},
    "C14": {"parts": [P("instance-ranges", "./c14", "^TestC14Instances$"), P("partition-ranges", "./c14", "^TestC14Partitions$")]},
    "C16": {"parts": [P("random-generator", "./c16", "^TestC16Random$"), P("spread-minimizing", "./c16", "^TestC16SpreadMinimizing$")]},
    "C18": {"parts": [P("init-order", "./c18", "^TestC18Init$"), P("cycle-rejection", "./c18", "^TestC18Cycles$"),
                      P("runtime-order", "./c18", "^TestC18Runtime$", shards={"quick": 12, "thorough": 14}, budget={"quick": 200, "thorough": 1200}, gomaxprocs=1,
                        overlay=[{"file": "modules/module_service.go", "rewrite": [], "add_imports": ['"verif/shim/maporder"'],
                                  "subst": [["for m, s := range startDeps {", "for _, m := range maporder.Keys(startDeps) {\n\t\ts := startDeps[m]"],
                                            ["for n, s := range stopDeps {", "for _, n := range maporder.Keys(stopDeps) {\n\t\ts := stopDeps[n]"]]}])]},
    "C19": {"parts": [P("wrappers", "./c19", "^TestC19Wrappers$"), P("jump-hash", "./c19", "^TestC19JumpHash$")]},
    "C20": {"parts": [P("validation", "./c20", "^TestC20Validation$"), P("propagation", "./c20", "^TestC20Propagation$")]},
    "C15": {"parts": [P("routing", "./c15", "^TestC15Routing$"), P("replication-sets", "./c15", "^TestC15ReplicationSets$"), P("multi-partition-replication-sets", "./c15", "^TestC15MultiReplicationSets$"),
                      P("state-machine", "./lifecycle", "^TestC15StateMachine$", shards={"quick": 16, "thorough": 16}, budget={"quick": 200, "thorough": 1200}, gomaxprocs=1)]},
}

# C02 takes the write executor's acknowledgement criterion from the real DoBatch (same harness and overlay as C10)
CHECKS["C02"]["parts"].append(P("write-executor-criterion", "./c10", "^TestC02Executor$", shards={"quick": 8, "thorough": 8},
                                budget={"quick": 200, "thorough": 600}, gomaxprocs=1, overlay=CHECKS["C10"]["parts"][0]["overlay"]))

# Race audit (free-running bodies under the Go race detector, h/racepass): appended to the properties whose
# other parts rely on "shared memory is only touched under the locks the code takes".
def R(pid):
    return P("race-audit", "./racepass", "^TestRace%s$" % pid, race=True)

for _pid in ["C06", "C07", "C08", "C10", "C11", "C13", "C15", "C16", "C17", "C18", "C19"]:
    CHECKS[_pid]["parts"].append(R(_pid))

