#!/bin/bash
# Build the harness module from files on disk only (offline).
set -e
cd "$(dirname "$0")"
. ./env.sh
mkdir -p evidence out
# go.mod of the harness = /repo's go.mod (same require/replace blocks, same toolchain)
# + replace of dskit itself by /repo. A bare require would drift to uncached versions.
sed -e 's#^module .*#module verif#' /repo/go.mod > h/go.mod
cat >> h/go.mod <<EOM

require github.com/grafana/dskit v0.0.0
require github.com/anishathalye/porcupine v1.3.0
replace github.com/grafana/dskit => /repo
EOM
cp /repo/go.sum h/go.sum
# porcupine is in the module cache; add its sums if missing
for f in /root/go/pkg/mod/cache/download/github.com/anishathalye/porcupine/@v/v1.3.0.ziphash; do :; done
(cd h && go mod download github.com/anishathalye/porcupine 2>/dev/null || true)
# warm the build cache: compile every harness test package once
(cd h && go vet -tags verif ./... >/dev/null 2>&1 || true)
(cd h && for p in $(go list -tags verif ./... 2>/dev/null); do go test -tags verif -vet=off -c -o /dev/null "$p" 2>&1 | tail -3 || true; done)
echo "setup done"
