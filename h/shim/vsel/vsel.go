// Package vsel is the seam for a native `select` with two ready cases (Go picks at random, which no
// scheduler hook can decide): code under test is rewritten (by the overlay generator, textually) to ask
// Two which of two possibly-ready cases to take and to mask the other one with a nil channel. Under the
// controlled scheduler the answer is an explorer choice; otherwise nothing is masked.
package vsel

import "verif/sched"

// Two returns 0 (take the first case), 1 (take the second) or -1 (leave the select alone).
func Two(firstReady, secondReady bool) int {
	if !firstReady || !secondReady || !sched.On() {
		return -1
	}
	return sched.Choose("select", 2, false)
}

// Point is a scheduling point placed (by the same textual seam) at the top of a loop around a select: without it a
// goroutine that runs natively from one receive to the next can never be caught "between two selects", which is
// exactly where two cases become ready together.
func Point(label string) { sched.Yield(label) }
