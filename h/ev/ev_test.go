package ev

import "testing"

func TestSmoke(t *testing.T) {}
