// C05 — one owner per token on every replica; lookups never see a broken index.
// Engine E1/BFS: breadth-first search over ring states reachable by real Desc.Merge calls
// (gossip merges and local-CAS merges) whose instances deliberately pick overlapping tokens.
package c05

import (
	"errors"
	"fmt"
	"sort"
	"strings"
	"sync"
	"testing"
	"time"

	"github.com/go-kit/log"
	"github.com/grafana/dskit/ring"

	"verif/enum"
	"verif/ev"
)

const M = ^uint32(0)

type op struct {
	kind   string // "gossip" | "cas-put" | "cas-remove"
	ids    []string
	dts    []int64 // timestamp offsets from now (gossip)
	states []ring.InstanceState
	tokens [][]uint32 // raw
}

func (o op) String() string {
	var sb strings.Builder
	sb.WriteString(o.kind + "(")
	for i, id := range o.ids {
		if i > 0 {
			sb.WriteString("; ")
		}
		switch o.kind {
		case "cas-remove", "cas-grow":
			sb.WriteString(id)
		default:
			fmt.Fprintf(&sb, "%s %s@now%+d %v", id, o.states[i], o.dts[i], o.tokens[i])
		}
	}
	return sb.String() + ")"
}

var zoneOf = map[string]string{"a": "z1", "b": "z2", "c": "z1"}

func alphabet(ids []string) []op {
	tokenLists := [][]uint32{nil, {0}, {1}, {M}, {0, 1}, {0, M}, {1, M}, {1, 0}, {1, 1}, {M, 0, M}}
	states := []ring.InstanceState{ring.ACTIVE, ring.LEAVING, ring.JOINING, ring.PENDING, ring.LEFT}
	var ops []op
	for _, id := range ids {
		for _, st := range states {
			for _, dt := range []int64{-1, 0, 1} {
				for _, tl := range tokenLists {
					if st == ring.PENDING && len(tl) > 1 {
						continue // PENDING behaves like JOINING for merging; keep a few
					}
					ops = append(ops, op{kind: "gossip", ids: []string{id}, dts: []int64{dt}, states: []ring.InstanceState{st}, tokens: [][]uint32{tl}})
				}
			}
		}
	}
	// two-entry gossip updates whose entries collide inside the same message
	for i := 0; i < len(ids); i++ {
		for j := i + 1; j < len(ids); j++ {
			for _, s1 := range []ring.InstanceState{ring.ACTIVE, ring.LEAVING} {
				for _, s2 := range []ring.InstanceState{ring.ACTIVE, ring.LEAVING} {
					for _, t1 := range [][]uint32{{1}, {0, 1}} {
						for _, t2 := range [][]uint32{{1}, {1, M}} {
							ops = append(ops, op{kind: "gossip", ids: []string{ids[i], ids[j]}, dts: []int64{0, 0}, states: []ring.InstanceState{s1, s2}, tokens: [][]uint32{t1, t2}})
						}
					}
				}
			}
		}
	}
	// local CAS: a lifecycler (re)writes its own entry into the current ring, or removes an entry
	for _, id := range ids {
		for _, st := range []ring.InstanceState{ring.ACTIVE, ring.LEAVING} {
			for _, tl := range [][]uint32{{0}, {1}, {0, 1}, {1, M}} {
				ops = append(ops, op{kind: "cas-put", ids: []string{id}, dts: []int64{0}, states: []ring.InstanceState{st}, tokens: [][]uint32{tl}})
			}
		}
		ops = append(ops, op{kind: "cas-remove", ids: []string{id}})
		ops = append(ops, op{kind: "cas-grow", ids: []string{id}})
	}
	// one local CAS writing two entries whose tokens collide with each other (an operator tool, a migration)
	for i := 0; i < len(ids); i++ {
		for j := i + 1; j < len(ids); j++ {
			for _, s1 := range []ring.InstanceState{ring.ACTIVE, ring.LEAVING} {
				for _, s2 := range []ring.InstanceState{ring.ACTIVE, ring.LEAVING} {
					for _, tt := range [][2][]uint32{{{1}, {1}}, {{0, 1}, {1, M}}, {{M, 1}, {1, 1}}} {
						ops = append(ops, op{kind: "cas-put", ids: []string{ids[i], ids[j]}, dts: []int64{0, 0}, states: []ring.InstanceState{s1, s2}, tokens: [][]uint32{tt[0], tt[1]}})
					}
				}
			}
		}
	}
	return ops
}

// ----- reference model -----

type ent struct {
	state  ring.InstanceState
	ts     int64
	tokens []uint32
}
type model map[string]ent

func (m model) clone() model {
	o := model{}
	for k, v := range m {
		v.tokens = append([]uint32(nil), v.tokens...)
		o[k] = v
	}
	return o
}

func norm(t []uint32) []uint32 {
	if len(t) == 0 {
		return nil
	}
	s := append([]uint32(nil), t...)
	sort.Slice(s, func(i, j int) bool { return s[i] < s[j] })
	out := s[:1]
	for _, x := range s[1:] {
		if x != out[len(out)-1] {
			out = append(out, x)
		}
	}
	return out
}

func (m model) canon(now int64) string {
	ids := make([]string, 0, len(m))
	for id := range m {
		ids = append(ids, id)
	}
	sort.Strings(ids)
	var sb strings.Builder
	for _, id := range ids {
		e := m[id]
		fmt.Fprintf(&sb, "%s:%s@%+d%v|", id, e.state, e.ts-now, e.tokens)
	}
	return sb.String()
}

func canonDesc(d *ring.Desc, now int64) string {
	m := model{}
	for id, in := range d.Ingesters {
		m[id] = ent{in.State, in.Timestamp, in.Tokens}
	}
	for id, e := range m {
		if len(e.tokens) == 0 {
			e.tokens = nil
			m[id] = e
		}
	}
	return m.canon(now)
}

// resolve: each token claimed by several non-LEFT entries goes to the non-LEAVING claimant with the
// smallest id, or, if all claimants are LEAVING, to the smallest id among them.
func (m model) resolve() (collisions int) {
	claim := map[uint32][]string{}
	for id, e := range m {
		if e.state == ring.LEFT {
			continue
		}
		for _, t := range e.tokens {
			claim[t] = append(claim[t], id)
		}
	}
	for t, ids := range claim {
		if len(ids) < 2 {
			continue
		}
		collisions++
		sort.Slice(ids, func(i, j int) bool {
			li, lj := m[ids[i]].state == ring.LEAVING, m[ids[j]].state == ring.LEAVING
			if li != lj {
				return !li
			}
			return ids[i] < ids[j]
		})
		for _, loser := range ids[1:] {
			e := m[loser]
			var nt []uint32
			for _, x := range e.tokens {
				if x != t {
					nt = append(nt, x)
				}
			}
			e.tokens = nt
			m[loser] = e
		}
	}
	return
}

func (m model) apply(o op, now int64) (model, int) {
	s := m.clone()
	incoming := model{}
	switch o.kind {
	case "gossip":
		for i, id := range o.ids {
			e := ent{o.states[i], now + o.dts[i], norm(o.tokens[i])}
			if e.state == ring.LEFT {
				e.tokens = nil
			}
			incoming[id] = e
		}
	case "cas-put":
		for id, e := range s {
			if e.state != ring.LEFT { // what a CAS function sees: tombstones are hidden from readers
				incoming[id] = e
			}
		}
		for i, id := range o.ids {
			incoming[id] = ent{o.states[i], now, norm(o.tokens[i])}
		}
	case "cas-remove":
		for id, e := range s {
			if e.state != ring.LEFT && id != o.ids[0] {
				incoming[id] = e
			}
		}
	case "cas-grow":
		for id, e := range s {
			if e.state != ring.LEFT {
				incoming[id] = e
			}
		}
		if e, ok := incoming[o.ids[0]]; ok {
			incoming[o.ids[0]] = ent{e.state, now + 1, norm(append(append([]uint32(nil), e.tokens...), M))}
		}
	}
	for id, e := range incoming {
		cur := s[id]
		if e.ts > cur.ts || (e.ts == cur.ts && cur.state != ring.LEFT && e.state == ring.LEFT) {
			s[id] = e
		}
	}
	if o.kind != "gossip" {
		for id, e := range s {
			if _, ok := incoming[id]; !ok && e.state != ring.LEFT {
				s[id] = ent{ring.LEFT, now, nil}
			}
		}
	}
	c := s.resolve()
	return s, c
}

// ----- real side -----

func applyReal(d *ring.Desc, o op, now int64) error {
	switch o.kind {
	case "gossip":
		in := ring.NewDesc()
		for i, id := range o.ids {
			in.Ingesters[id] = ring.InstanceDesc{Id: id, Addr: id, Zone: zoneOf[id], State: o.states[i], Timestamp: now + o.dts[i], Tokens: append([]uint32(nil), o.tokens[i]...), RegisteredTimestamp: 1}
		}
		_, err := d.Merge(in, false)
		return err
	case "cas-put", "cas-remove", "cas-grow":
		// what kv/memberlist hands to a CAS function: a clone without tombstones
		cl := d.Clone().(*ring.Desc)
		cl.RemoveTombstones(time.Time{})
		if o.kind == "cas-grow" {
			// a lifecycler adds a token to the ones it has: it appends to the slice it was given (which shares its storage
			// with the replica's own entry) and writes the entry back with a newer timestamp
			if in, ok := cl.Ingesters[o.ids[0]]; ok {
				has := false
				for _, t := range in.Tokens {
					has = has || t == M
				}
				if !has {
					in.Tokens = append(in.Tokens, M) // M is the largest token: the list stays sorted, nothing is moved
				}
				in.Timestamp = now + 1
				cl.Ingesters[o.ids[0]] = in
			}
		} else if o.kind == "cas-put" {
			for i, id := range o.ids {
				cl.Ingesters[id] = ring.InstanceDesc{Id: id, Addr: id, Zone: zoneOf[id], State: o.states[i], Timestamp: now, Tokens: append([]uint32(nil), o.tokens[i]...), RegisteredTimestamp: 1}
			}
		} else {
			delete(cl.Ingesters, o.ids[0])
		}
		_, err := d.Merge(cl, true)
		return err
	}
	return nil
}

func invariant(d *ring.Desc) string {
	owner := map[uint32]string{}
	for id, in := range d.Ingesters {
		if in.State == ring.LEFT && len(in.Tokens) > 0 {
			return fmt.Sprintf("%s is LEFT but holds tokens %v", id, in.Tokens)
		}
		for i, t := range in.Tokens {
			if i > 0 && in.Tokens[i-1] >= t {
				return fmt.Sprintf("%s tokens not sorted/unique: %v", id, in.Tokens)
			}
			if in.State == ring.LEFT {
				continue
			}
			if o, ok := owner[t]; ok {
				return fmt.Sprintf("token %d held by both %s and %s", t, o, id)
			}
			owner[t] = id
		}
	}
	return ""
}

type rings struct{ plain, zoned, longLived, fresh *ring.Ring }

var ringPool = sync.Pool{New: func() any {
	mk := func(za bool) *ring.Ring {
		cfg := ring.Config{HeartbeatTimeout: time.Hour, ReplicationFactor: 2, ZoneAwarenessEnabled: za, SubringCacheDisabled: true}
		r, err := ring.NewWithStoreClientAndStrategy(cfg, "c05", "k", nil, ring.NewDefaultReplicationStrategy(), nil, log.NewNopLogger())
		if err != nil {
			panic(err)
		}
		return r
	}
	// the watcher pair uses replication factor 1: with 2..3 instances a larger factor makes every instance own every key
	mk1 := func() *ring.Ring {
		cfg := ring.Config{HeartbeatTimeout: time.Hour, ReplicationFactor: 1, SubringCacheDisabled: true}
		r, err := ring.NewWithStoreClientAndStrategy(cfg, "c05w", "k", nil, ring.NewDefaultReplicationStrategy(), nil, log.NewNopLogger())
		if err != nil {
			panic(err)
		}
		return r
	}
	return &rings{mk(false), mk(true), mk1(), mk1()}
}}

// queryRing feeds the state to real ring clients as a reader would see it and runs lookups.
func queryRing(d *ring.Desc) (queries int, bad string) {
	rs := ringPool.Get().(*rings)
	defer ringPool.Put(rs)
	defer func() {
		if p := recover(); p != nil {
			bad = fmt.Sprintf("PANIC: %v", p)
		}
	}()
	for _, r := range []*ring.Ring{rs.plain, rs.zoned} {
		r.VerifUpdateRingState(ring.NewDesc())
		view := d.Clone().(*ring.Desc)
		view.RemoveTombstones(time.Time{})
		r.VerifUpdateRingState(view)
		chk := func(what string, err error) bool {
			queries++
			if err != nil && errors.Is(err, ring.ErrInconsistentTokensInfo) {
				bad = what + ": " + err.Error()
				return false
			}
			return true
		}
		for _, k := range []uint32{0, 1, 2, M - 1, M} {
			for _, o := range []ring.Operation{ring.Write, ring.Read, ring.Reporting} {
				_, err := r.Get(k, o, nil, nil, nil)
				if !chk(fmt.Sprintf("Get(%d)", k), err) {
					return
				}
			}
		}
		_, err := r.GetReplicationSetForOperation(ring.Read)
		if !chk("GetReplicationSetForOperation", err) {
			return
		}
		sub := r.ShuffleShard("tenant", 1)
		_, err = sub.Get(1, ring.Write, nil, nil, nil)
		if !chk("ShuffleShard(1).Get", err) {
			return
		}
		subl := r.ShuffleShardWithLookback("tenant", 1, time.Hour, time.Now())
		_, err = subl.Get(M, ring.Read, nil, nil, nil)
		if !chk("ShuffleShardWithLookback(1).Get", err) {
			return
		}
		for id := range view.Ingesters {
			_, err := r.GetTokenRangesForInstance(id)
			if !chk("GetTokenRangesForInstance("+id+")", err) {
				return
			}
		}
	}
	return
}

// readerView is what the gossip store hands to a watcher: a clone (sharing token arrays) without tombstones.
func readerView(d *ring.Desc) *ring.Desc {
	v := d.Clone().(*ring.Desc)
	v.RemoveTombstones(time.Time{})
	return v
}

// lookups is a compact answer vector of a ring client (owners per boundary key, token ranges).
func lookups(r *ring.Ring, ids []string) []string {
	var out []string
	for _, k := range []uint32{0, 1, 2, M - 1, M} {
		for _, o := range []ring.Operation{ring.Write, ring.Reporting} {
			rs, err := r.Get(k, o, nil, nil, nil)
			var owners []string
			for _, in := range rs.Instances {
				owners = append(owners, in.Id)
			}
			sort.Strings(owners)
			out = append(out, fmt.Sprintf("Get(%d,%d)=%v,%v", k, o, owners, err != nil))
		}
	}
	for _, id := range ids {
		tr, err := r.GetTokenRangesForInstance(id)
		out = append(out, fmt.Sprintf("ranges(%s)=%v,%v", id, tr, err != nil))
	}
	sub := r.ShuffleShard("tenant", 1)
	rs, err := sub.Get(1, ring.Write, nil, nil, nil)
	out = append(out, fmt.Sprintf("shard.Get=%d,%v", len(rs.Instances), err != nil))
	return out
}

type node struct {
	hist []int // op indexes
	m    model
}

func TestC05(t *testing.T) {
	rep := ev.NewReport("C05", "merge-bfs")
	ids := []string{"a", "b"}
	depth := 3
	if ev.Thorough() {
		ids = []string{"a", "b", "c"}
	}
	ops := alphabet(ids)
	rep.Bound = fmt.Sprintf("ids %v, token space {0,1,2^32-1}, %d operations (gossip merges of 1- and 2-entry descriptors in 5 states × 3 timestamps × 10 raw token lists incl. unsorted/duplicated; local-CAS put of one entry or of two entries colliding with each other / remove / grow the token list in place on the shared clone, through Merge(…,true)), BFS depth %d from the empty ring, every state reached by replaying real merges on a fresh descriptor", ids, len(ops), depth)
	rep.Rule = "in every reachable state: tokens sorted/unique, LEFT holds none, no token in two non-LEFT entries, real merge result ≡ reference (per-entry LWW + collision rule: non-LEAVING beats LEAVING, else smaller id), and a real ring client fed the state answers Get/ShuffleShard/lookback/token-range/replication-set queries without ErrInconsistentTokensInfo or panic; a long-lived ring client fed a clone of the replica after every merge (as the gossip store feeds its watchers) answers like a client built from the final state alone; distinct_nontrivial = distinct reachable states in whose last step at least one token collision was resolved"
	deadline := ev.Deadline(10 * time.Minute)
	enum.Frozen(t, func() {
		now := time.Now().Unix()
		var mu sync.Mutex
		seen := map[string]bool{model{}.canon(now): true}
		frontier := []node{{nil, model{}}}
		for lvl := 1; lvl <= depth; lvl++ {
			var next []node
			total := len(frontier) * len(ops)
			ok := enum.Par(total, deadline, func() bool { return rep.NumViolations() >= 20 }, func(ix int) {
				nd, oi := frontier[ix/len(ops)], ix%len(ops)
				// replay on a fresh real descriptor; a long-lived ring client watches the replica the way a client of the
				// gossip store does (a clone of the stored value after every change)
				rs := ringPool.Get().(*rings)
				defer ringPool.Put(rs)
				rs.longLived.VerifUpdateRingState(ring.NewDesc())
				d := ring.NewDesc()
				for _, h := range nd.hist {
					if err := applyReal(d, ops[h], now); err != nil {
						panic(err)
					}
					rs.longLived.VerifUpdateRingState(readerView(d))
				}
				err := applyReal(d, ops[oi], now)
				// judged before any reader sees the state: a ring client sorts unsorted token lists of the descriptor it is
				// given in place, and a reader's clone shares its token storage with the replica
				inv, got := invariant(d), canonDesc(d, now)
				rs.longLived.VerifUpdateRingState(readerView(d))
				want, collisions := nd.m.apply(ops[oi], now)
				rep.Trans(1)
				rep.Eval(int64(len(nd.hist) + 1))
				histStr := func() string {
					var hs []string
					for _, h := range nd.hist {
						hs = append(hs, ops[h].String())
					}
					hs = append(hs, ops[oi].String())
					return strings.Join(hs, " → ")
				}
				if err != nil {
					rep.Violate("err:"+histStr(), "merge error "+err.Error()+" after "+histStr(), nil)
					return
				}
				if inv != "" {
					rep.Violate("inv:"+histStr(), fmt.Sprintf("after %s: %s (state %s)", histStr(), inv, got), map[string]any{"history": histStr()})
				}
				if s := invariant(d); s != "" && inv == "" {
					rep.Violate("inv2:"+histStr(), fmt.Sprintf("after %s and a reader's update: %s (state %s)", histStr(), s, canonDesc(d, now)), map[string]any{"history": histStr()})
				}
				if got != want.canon(now) {
					rep.Violate("rule:"+histStr(), fmt.Sprintf("after %s: real state %s, reference (LWW + collision rule) %s", histStr(), got, want.canon(now)), map[string]any{"history": histStr()})
					return
				}
				// the watching client must answer like a client built from the final state alone
				rs.fresh.VerifUpdateRingState(ring.NewDesc())
				fv := readerView(d)
				for id, in := range fv.Ingesters { // the fresh client gets its own token arrays
					in.Tokens = append([]uint32(nil), in.Tokens...)
					fv.Ingesters[id] = in
				}
				rs.fresh.VerifUpdateRingState(fv)
				la, fa := lookups(rs.longLived, ids), lookups(rs.fresh, ids)
				rep.Eval(int64(len(la)))
				for i := range la {
					if la[i] != fa[i] {
						rep.Violate("watcher:"+histStr(), fmt.Sprintf("after %s a ring client that watched the replica all along answers %s, a client built from the final state %s answers %s", histStr(), la[i], got, fa[i]), map[string]any{"history": histStr()})
						break
					}
				}
				mu.Lock()
				isNew := !seen[got]
				if isNew {
					seen[got] = true
					next = append(next, node{append(append([]int(nil), nd.hist...), oi), want})
				}
				mu.Unlock()
				if isNew {
					rep.State(1)
					if collisions > 0 {
						rep.Distinct(got)
					}
					q, bad := queryRing(d)
					rep.Eval(int64(q))
					if bad != "" {
						rep.Violate("query:"+got, fmt.Sprintf("ring client on state %s (after %s): %s", got, histStr(), bad), map[string]any{"history": histStr()})
					}
					if collisions > 0 && len(nd.hist) == 1 {
						rep.Sample(histStr() + "  ⇒  " + got)
					}
				}
			})
			if !ok {
				rep.NotExhaustive(fmt.Sprintf("stopped at BFS level %d", lvl))
				break
			}
			rep.Set(fmt.Sprintf("level%d_new_states", lvl), len(next))
			// deterministic order for the next level
			sort.Slice(next, func(i, j int) bool { return fmt.Sprint(next[i].hist) < fmt.Sprint(next[j].hist) })
			frontier = next
		}
	})
	rep.Trace(rep.Transitions)
	if err := rep.Write(); err != nil {
		t.Fatal(err)
	}
}
