# common environment for every harness command (offline)
export GOFLAGS=-mod=mod
export GOPROXY=off
unset GOTOOLCHAIN GOSUMDB 2>/dev/null || true
export GONOSUMDB=github.com/anishathalye GONOSUMCHECK=1
export VERIF_ROOT="$(cd "$(dirname "${BASH_SOURCE[0]}")" && pwd)"
