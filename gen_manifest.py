#!/usr/bin/env python3
# Regenerates MANIFEST.json from manifest_src.py (single source of truth for claimed checks).
import json, subprocess
from manifest_src import CLAIMS, NOT_APPLICABLE, HOOK_COMMITS, ENGINES
m = {
 "version": 1,
 "setup_cmd": "./setup.sh",
 "hooks": {
  "guard": "verif",
  "enable": "go test -tags verif (checks add -overlay <generated import-rewritten copies> where a controlled scheduler is needed); hook files are //go:build verif",
  "baseline_off_cmd": "cd /repo && go test -mod=mod -json -vet=off -count=1 -timeout 25m ./...",
  "source_commits": HOOK_COMMITS,
  "add_only": True,
 },
 "engines": ENGINES,
 "checks": [],
 "not_applicable": NOT_APPLICABLE,
 "notes": "All checks: ./check <id> quick|thorough. exit 0 held / exit 1 + VIOLATION line / exit 2 harness error. See DESIGN.md.",
}
for c in CLAIMS:
    m["checks"].append({
        "property_id": c["id"],
        "quick_cmd": "./check %s quick" % c["id"],
        "thorough_cmd": "./check %s thorough" % c["id"],
        "evidence_file": "evidence/%s.json" % c["id"],
        "replay_cmd_template": "./check %s --replay {path}" % c["id"],
        "engine": c["engine"],
        "level_claimed": {"category": c.get("category", "model_checking"), "text": c["text"], "design_ref": c["design_ref"]},
        "level_note": c["note"],
        "technique": c["technique"],
    })
json.dump(m, open("MANIFEST.json", "w"), indent=1)
print("claimed:", [c["id"] for c in CLAIMS], "n/a:", [n["property_id"] for n in NOT_APPLICABLE])
