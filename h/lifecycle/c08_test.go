package lifecycle

import (
	"context"
	"fmt"
	"os"
	"sort"
	"strings"
	"testing"
	"testing/synctest"
	"time"

	"github.com/go-kit/log"

	"github.com/grafana/dskit/ring"
	"github.com/grafana/dskit/services"

	"verif/ev"
	"verif/sched"
)

const (
	ringKey   = "ring"
	hbPeriod  = 5 * time.Second
	hbTimeout = time.Minute
	quantum   = 500 * time.Millisecond
	numTokens = 2
)

type tokenGen struct{ LowestFree }

func (g tokenGen) GenerateTokens(n int, taken []uint32) ring.Tokens {
	return ring.Tokens(g.LowestFree.GenerateTokens(n, taken))
}
func (tokenGen) CanJoin(map[string]ring.InstanceDesc) error { return nil }
func (tokenGen) CanJoinEnabled() bool                       { return false }

type lcSpec struct {
	id          string
	tag         string // store-client tag (defaults to id); a restarted process gets a new tag
	basic       bool
	joinAfter   time.Duration
	observe     time.Duration
	unregister  bool
	autoForget  time.Duration // basic only
	ringHealth  bool          // readiness requires the whole ring healthy
	tokensFile  string
	heartbeat   time.Duration
	noHeartbeat bool
	genStart    uint32
	numTokens   int           // 0 = the default (numTokens)
	startAt     time.Duration // the process is started this long after the scenario begins (0 = at once)
	finalSleep  time.Duration // full lifecycler: how long it stays LEAVING (heartbeating) before it is gone
}

type action struct {
	at   time.Duration
	kind string // stop | readonly-on | readonly-off | ready | claim
	who  string
	arg  string
}

type scenario struct {
	name    string
	lcs     []lcSpec
	actions []action
	seed    func() *ring.Desc // initial ring content, built inside the bubble (virtual time)
	horizon time.Duration
	// oneProcess: every lifecycler of the scenario is ONE process from start to end (no crash/restart inside the run, as
	// in all C08 scenarios; C09 restarts processes under the same writer name): only then is "first write of the
	// process" the first recorded write of that writer
	oneProcess bool
}

type instance struct {
	spec  lcSpec
	full  *ring.Lifecycler
	basic *ring.BasicLifecycler
	svc   services.Service
}

func buildLifecycler(st *Store, sp lcSpec) *instance {
	in := &instance{spec: sp}
	if sp.tag == "" {
		sp.tag = sp.id
	}
	hb := hbPeriod
	if sp.heartbeat > 0 {
		hb = sp.heartbeat
	}
	if sp.noHeartbeat {
		hb = 0
	}
	numTokens := numTokens
	if sp.numTokens > 0 {
		numTokens = sp.numTokens
	}
	if sp.basic {
		cfg := ring.BasicLifecyclerConfig{ID: sp.id, Addr: "addr-" + sp.id, Zone: "z", HeartbeatPeriod: hb, HeartbeatTimeout: hbTimeout, TokensObservePeriod: sp.observe, NumTokens: numTokens,
			KeepInstanceInTheRingOnShutdown: !sp.unregister, RingTokenGenerator: tokenGen{LowestFree{16, sp.genStart}}}
		var d ring.BasicLifecyclerDelegate = ring.NewInstanceRegisterDelegate(ring.ACTIVE, numTokens)
		d = ring.NewLeaveOnStoppingDelegate(d, log.NewNopLogger())
		d = ring.NewTokensPersistencyDelegate(sp.tokensFile, ring.ACTIVE, d, log.NewNopLogger())
		if sp.autoForget > 0 {
			d = ring.NewAutoForgetDelegate(sp.autoForget, d, log.NewNopLogger())
		}
		l, err := ring.NewBasicLifecycler(cfg, "ring", ringKey, st.Client(sp.tag), d, log.NewNopLogger(), nil)
		if err != nil {
			panic(err)
		}
		in.basic, in.svc = l, l
		return in
	}
	cfg := ring.LifecyclerConfig{NumTokens: numTokens, HeartbeatPeriod: hb, HeartbeatTimeout: hbTimeout, ObservePeriod: sp.observe, JoinAfter: sp.joinAfter,
		Addr: "10.0.0.1", Port: 1, ID: sp.id, Zone: "z", UnregisterOnShutdown: sp.unregister, ReadinessCheckRingHealth: sp.ringHealth, TokensFilePath: sp.tokensFile,
		RingTokenGenerator: tokenGen{LowestFree{16, sp.genStart}}}
	cfg.FinalSleep = sp.finalSleep
	cfg.RingConfig.KVStore.Mock = st.Client(sp.tag)
	cfg.RingConfig.HeartbeatTimeout = hbTimeout
	cfg.RingConfig.ReplicationFactor = 1
	l, err := ring.NewLifecycler(cfg, nil, "ring", ringKey, false, log.NewNopLogger(), nil)
	if err != nil {
		panic(err)
	}
	in.full, in.svc = l, l
	return in
}

func (in *instance) checkReady(ctx context.Context) error {
	if in.full != nil {
		return in.full.CheckReady(ctx)
	}
	return nil
}

func descOf(v interface{}) *ring.Desc {
	d, _ := v.(*ring.Desc)
	if d == nil {
		return ring.NewDesc()
	}
	return d
}

func instStr(in ring.InstanceDesc) string {
	return fmt.Sprintf("%s@%d reg%d ro%v %v", in.State, in.Timestamp, in.RegisteredTimestamp, in.ReadOnly, in.Tokens)
}

var legalEdges = map[[2]ring.InstanceState]bool{
	{ring.PENDING, ring.JOINING}: true, {ring.PENDING, ring.ACTIVE}: true, {ring.JOINING, ring.ACTIVE}: true, {ring.JOINING, ring.PENDING}: true,
	{ring.ACTIVE, ring.LEAVING}: true, {ring.LEAVING, ring.ACTIVE}: true,
}

func externalEdit(sc scenario, w string) bool {
	for _, a := range sc.actions {
		if a.kind == "external-edit" && a.who == w {
			return true
		}
	}
	return false
}

var stateByName = map[string]ring.InstanceState{"PENDING": ring.PENDING, "JOINING": ring.JOINING, "ACTIVE": ring.ACTIVE, "LEAVING": ring.LEAVING}

// claimsOf lists the instances whose tokens the scenario lets lifecycler w claim.
func claimsOf(sc scenario, w string) map[string]bool {
	m := map[string]bool{}
	for _, a := range sc.actions {
		if a.kind == "claim" && a.who == w {
			m[a.arg] = true
		}
	}
	return m
}

// monitor checks every recorded write; returns the first violation.
func monitor(sc scenario, st *Store, t0 time.Time) (key, what string) {
	specs := map[string]lcSpec{}
	for _, s := range sc.lcs {
		specs[s.id] = s
	}
	tokensChosen := map[string]bool{}
	handedOver := map[string]bool{} // lifecyclers whose tokens come from a hand-over (inherited, not chosen)
	wrote := map[string]int{}       // own writes so far per lifecycler process (a restart edge is legal on the first only)
	for _, w := range st.Writes {
		sp, isLC := specs[w.Writer]
		if !isLC {
			continue // external editor (harness)
		}
		wrote[w.Writer]++
		in, out := descOf(w.In), descOf(w.Out)
		at := w.At.Sub(t0)
		// (a) other entries untouched
		ids := map[string]bool{}
		for id := range in.Ingesters {
			ids[id] = true
		}
		for id := range out.Ingesters {
			ids[id] = true
		}
		for _, id := range sortedKeys(ids) {
			if id == w.Writer {
				continue
			}
			a, aok := in.Ingesters[id]
			b, bok := out.Ingesters[id]
			if aok == bok && (!aok || instStr(a) == instStr(b)) {
				continue
			}
			if sp.autoForget > 0 && aok && !bok && w.At.Sub(time.Unix(a.Timestamp, 0)) > sp.autoForget {
				continue // documented: auto-forget of a long-dead instance
			}
			if claimsOf(sc, w.Writer)[id] && aok && bok {
				// documented: the explicit token hand-over. The other entry loses its tokens and nothing else, and the
				// claimer's tokens become exactly those tokens, sorted.
				stripped := a
				stripped.Tokens = nil
				mine := out.Ingesters[w.Writer]
				moved := append([]uint32(nil), a.Tokens...)
				sort.Slice(moved, func(i, j int) bool { return moved[i] < moved[j] })
				if instStr(stripped) == instStr(b) && fmt.Sprint(mine.Tokens) == fmt.Sprint(moved) {
					handedOver[w.Writer] = true
					continue
				}
				return "bad-hand-over", fmt.Sprintf("at +%v lifecycler %s claimed the tokens of %s: %v → %v, its own tokens became %v", at, w.Writer, id, show(a, aok), show(b, bok), mine.Tokens)
			}
			return "foreign-edit", fmt.Sprintf("at +%v lifecycler %s changed the entry of %s: %v → %v", at, w.Writer, id, show(a, aok), show(b, bok))
		}
		a, aok := in.Ingesters[w.Writer]
		b, bok := out.Ingesters[w.Writer]
		if aok && bok {
			if a.State != b.State && !legalEdges[[2]ring.InstanceState{a.State, b.State}] {
				return "illegal-edge", fmt.Sprintf("at +%v lifecycler %s published %s → %s", at, w.Writer, a.State, b.State)
			}
			if sc.oneProcess && a.State == ring.LEAVING && b.State == ring.ACTIVE && wrote[w.Writer] > 1 && !externalEdit(sc, w.Writer) {
				// "leaving to active" is a restart edge: legal only as the first write of a process that found its entry LEAVING
				return "illegal-edge", fmt.Sprintf("at +%v lifecycler %s published LEAVING → ACTIVE in its write #%d (a restart edge: only the first write of a process may take it)", at, w.Writer, wrote[w.Writer])
			}
			if b.Timestamp < a.Timestamp {
				return "heartbeat-backwards", fmt.Sprintf("at +%v lifecycler %s moved its heartbeat timestamp from %d back to %d", at, w.Writer, a.Timestamp, b.Timestamp)
			}
			if len(a.Tokens) > 0 && !handedOver[w.Writer] {
				// tokens an entry already holds (inherited from an earlier incarnation, a tokens file or its own join) are
				// kept as they are: its own writes may add to them or trim them (restart with another count), never
				// drop or replace them
				have := map[uint32]bool{}
				for _, tk := range a.Tokens {
					have[tk] = true
				}
				common := 0
				for _, tk := range b.Tokens {
					if have[tk] {
						common++
					}
				}
				if common != len(a.Tokens) && common != len(b.Tokens) || len(b.Tokens) == 0 {
					return "tokens-replaced", fmt.Sprintf("at +%v lifecycler %s changed the tokens of its own entry from %v to %v", at, w.Writer, a.Tokens, b.Tokens)
				}
			}
			if a.RegisteredTimestamp != 0 && b.RegisteredTimestamp != a.RegisteredTimestamp {
				return "registration-changed", fmt.Sprintf("at +%v lifecycler %s changed its registration time from %d to %d while its entry persisted", at, w.Writer, a.RegisteredTimestamp, b.RegisteredTimestamp)
			}
		}
		if bok {
			for i := 1; i < len(b.Tokens); i++ {
				if b.Tokens[i-1] >= b.Tokens[i] {
					return "tokens-unsorted", fmt.Sprintf("at +%v lifecycler %s published unsorted or duplicate tokens %v", at, w.Writer, b.Tokens)
				}
			}
			inherited := aok && len(a.Tokens) > 0
			if len(b.Tokens) > 0 && !inherited && !tokensChosen[w.Writer] && !handedOver[w.Writer] && sp.tokensFile == "" {
				tokensChosen[w.Writer] = true
				// this is the call that chose the tokens: none may be visible as another instance's token in its input
				for _, id := range sortedKeys(in.Ingesters) {
					o := in.Ingesters[id]
					if id == w.Writer {
						continue
					}
					for _, t := range o.Tokens {
						for _, mine := range b.Tokens {
							if t == mine {
								return "token-collision", fmt.Sprintf("at +%v lifecycler %s chose token %d which the ring showed as a token of %s", at, w.Writer, t, id)
							}
						}
					}
				}
			}
			if b.State == ring.ACTIVE && len(b.Tokens) != numTokens && !(aok && len(a.Tokens) == len(b.Tokens)) {
				return "token-count", fmt.Sprintf("at +%v lifecycler %s is ACTIVE with %d tokens %v, configured %d", at, w.Writer, len(b.Tokens), b.Tokens, numTokens)
			}
		}
	}
	return "", ""
}

func show(in ring.InstanceDesc, ok bool) string {
	if !ok {
		return "<absent>"
	}
	return instStr(in)
}

func runC08(t *testing.T, sc scenario, ch *sched.Chooser) (res sched.Result) {
	synctest.Test(t, func(t *testing.T) {
		e := sched.NewExec(ch)
		e.MaxSteps = 4000
		e.DelayBounded = true
		e.Quantum = quantum
		t0 := time.Now()
		st := NewStore()
		st.SetCodec(ringKey, ring.GetCodec())
		st.Conflicts = true
		if sc.seed != nil {
			st.Put("seed", ringKey, sc.seed())
		}
		insts := map[string]*instance{}
		for _, sp := range sc.lcs {
			insts[sp.id] = buildLifecycler(st, sp)
		}
		horizon := sc.horizon
		if horizon == 0 {
			horizon = 24 * time.Second
		}
		elapsed := func() time.Duration { return time.Since(t0) }
		e.ClockOn = func() bool { return elapsed() < horizon }
		// regularity bookkeeping
		slow := map[string]bool{}
		probing := map[string]bool{}        // a readiness probe of that lifecycler is in flight
		readyLatched := map[string]bool{}   // lifecyclers whose readiness probe has passed once (it then keeps passing: documented latch)
		startedAt := map[string]time.Time{} // when each lifecycler was actually started (the schedule may delay it)
		stopAsked := map[string]bool{}
		var viol, key string
		fail := func(k, f string, a ...any) {
			if viol == "" {
				viol, key = fmt.Sprintf(f, a...), k
			}
		}
		e.OnClock = func() {
			// a heartbeat must have been published within the last period (+1s rounding) unless the store was slow
			now := time.Now().Add(quantum) // the tick about to happen: check BEFORE advancing, i.e. state at current time
			_ = now
			cur := descOf(st.Peek(ringKey))
			for _, id := range sortedKeys(insts) {
				in := insts[id]
				if in.spec.noHeartbeat || stopAsked[id] || slow[id] {
					continue
				}
				if e.ParkedInCond("kv:" + id) {
					slow[id] = true // the clock moves while one of its store operations is pending: the store is slow
					continue
				}
				ent, ok := cur.Ingesters[id]
				if !ok {
					continue
				}
				hb := hbPeriod
				if in.spec.heartbeat > 0 {
					hb = in.spec.heartbeat
				}
				// the basic lifecycler heartbeats on its own ticker during the tokens-observe phase of its start-up
				// and starts a fresh ticker when it reaches Running, so the interval spanning the end of that
				// phase is longer by the part of the observe period after the phase's last tick (observe mod period;
				// token verification cannot fail on this store, so the phase is exactly one observe period long).
				// The full lifecycler has one ticker for its whole life.
				extra := time.Duration(0)
				if in.spec.basic {
					extra = in.spec.observe % hb
				}
				last := time.Unix(ent.Timestamp, 0)
				st0, started := startedAt[id]
				if !started {
					continue
				}
				if last.Before(st0) {
					last = st0 // an entry inherited from an earlier incarnation: this process is obliged from its own start on
				}
				if age := time.Since(last); age > hb+time.Second+extra {
					fail("heartbeat-late", "at +%v the entry of %s carries a heartbeat %v old although the store accepted every write at once (period %v)", elapsed(), id, age, hb)
				}
			}
		}
		e.Enable()
		for _, sp := range sc.lcs {
			in := insts[sp.id]
			e.Go("s-start:"+sp.id, func() {
				if sp.startAt > 0 {
					sched.YieldUntil("at", func() bool { return elapsed() >= sp.startAt })
				}
				startedAt[sp.id] = time.Now()
				if err := in.svc.StartAsync(context.Background()); err != nil {
					sched.Obs("start-error " + sp.id + " " + err.Error())
				}
			})
		}
		for ai, a := range sc.actions {
			a := a
			in := insts[a.who]
			e.Go(fmt.Sprintf("x%d-%s:%s", ai, a.kind, a.who), func() {
				sched.YieldUntil("at", func() bool {
					switch a.kind {
					case "ready":
						// CheckReady holds a native mutex of the lifecycler across its store read: two probes of one lifecycler
						// in flight together would leave the second blocked where the scheduler cannot see it
						return elapsed() >= a.at && !probing[a.who]
					case "change-state":
						// a request made while the service is still starting is answered from a natively racing state check
						return elapsed() >= a.at && in.svc.State() != services.New && in.svc.State() != services.Starting
					}
					return elapsed() >= a.at
				})
				switch a.kind {
				case "stop":
					stopAsked[a.who] = true
					sched.Obs("stop " + a.who)
					in.svc.StopAsync()
				case "readonly-on", "readonly-off":
					if in.full != nil {
						_ = in.full.ChangeReadOnlyState(context.Background(), a.kind == "readonly-on")
					} else {
						_ = in.basic.ChangeReadOnlyState(context.Background(), a.kind == "readonly-on")
					}
				case "ready":
					probing[a.who] = true
					err := in.checkReady(context.Background())
					probing[a.who] = false
					cur := descOf(st.Peek(ringKey))
					ent, ok := cur.Ingesters[a.who]
					if err == nil && readyLatched[a.who] {
						// documented latch: once the check has passed it keeps passing
					} else if err == nil {
						readyLatched[a.who] = true
						switch {
						case !ok || ent.State != ring.ACTIVE || len(ent.Tokens) == 0:
							sched.Obs(fmt.Sprintf("READY-VIOLATION %s reported ready at +%v but its ring entry is %s", a.who, elapsed(), show(ent, ok)))
						case in.spec.ringHealth:
							for _, id := range sortedKeys(cur.Ingesters) {
								o := cur.Ingesters[id]
								if o.State != ring.ACTIVE || time.Since(time.Unix(o.Timestamp, 0)) > hbTimeout {
									sched.Obs(fmt.Sprintf("READY-VIOLATION %s reported ready at +%v but member %s is %s", a.who, elapsed(), id, instStr(o)))
								}
							}
						}
					}
					sched.Obs(fmt.Sprintf("ready %s -> %v", a.who, err == nil))
				case "change-state":
					// an external state change request (full lifecycler): granted only along the documented edges; a granted
					// request is published before the call returns, a refused one publishes nothing
					if in.full != nil {
						before := descOf(st.Peek(ringKey)).Ingesters[a.who].State
						err := in.full.ChangeState(context.Background(), stateByName[a.arg])
						after := descOf(st.Peek(ringKey)).Ingesters[a.who].State
						sched.Obs(fmt.Sprintf("change-state %s %s: %s -> %s err=%v", a.who, a.arg, before, after, err != nil))
						if err == nil && after != stateByName[a.arg] && !stopAsked[a.who] {
							sched.Obs(fmt.Sprintf("READY-VIOLATION %s: ChangeState(%s) returned nil at +%v but the ring entry is %s", a.who, a.arg, elapsed(), after))
						}
					}
				case "claim":
					if in.full != nil {
						sched.Obs("claim " + a.who + " <- " + a.arg)
						if err := in.full.ClaimTokensFor(context.Background(), a.arg); err != nil {
							sched.Obs("claim-error " + err.Error())
						}
					}
				case "external-edit":
					// somebody else (an operator) changes the lifecycler's entry: not attributed to the lifecycler
					cur := descOf(st.Peek(ringKey))
					if ent, ok := cur.Ingesters[a.who]; ok {
						ent.State = ring.LEAVING
						cur.Ingesters[a.who] = ent
						st.Put("operator", ringKey, cur)
					}
				}
			})
		}
		status := e.Run()
		canon := e.CanonLog()
		trace := append([]string{}, e.Trace...)
		parked := e.Parked()
		log := e.Events()
		e.Disable()
		synctest.Wait()
		for _, evn := range log {
			if strings.HasPrefix(evn.Text, "READY-VIOLATION") {
				fail("ready", "%s", evn.Text)
			}
			if strings.HasPrefix(evn.Text, "start-error") {
				fail("start-error", "%s", evn.Text)
			}
		}
		if k, w := monitor(sc, st, t0); k != "" {
			fail(k, "%s", w)
		}
		_ = status
		_ = parked
		// final expectations at the horizon
		cur := descOf(st.Peek(ringKey))
		var fin []string
		for _, id := range sortedKeys(insts) {
			in := insts[id]
			ent, ok := cur.Ingesters[id]
			fin = append(fin, id+"="+show(ent, ok))
			if viol == "" && !stopAsked[id] && !slow[id] && elapsed() >= horizon {
				// a lifecycler left alone for the whole horizon is ACTIVE with its tokens
				if !ok || ent.State != ring.ACTIVE || len(ent.Tokens) != numTokens {
					external := false
					for _, a := range sc.actions {
						if a.who == id && (a.kind == "external-edit" || a.kind == "change-state") {
							external = true
						}
					}
					if !external {
						fail("not-active", "lifecycler %s was left running for %v with a responsive store but its entry is %s", id, horizon, show(ent, ok))
					}
				}
			}
			_ = in
		}
		sort.Strings(fin)
		res = sched.Result{Violation: viol, Key: key, Outcome: fmt.Sprintf("%v writes=%d", fin, len(st.Writes)), Trace: append(trace, canon...)}
		for _, in := range insts {
			in.svc.StopAsync()
		}
		// let everything wind down with the scheduler off (store operations no longer park)
		e.Teardown()
		for i := 0; i < 200; i++ {
			allDone := true
			for _, in := range insts {
				if s := in.svc.State(); s != services.Terminated && s != services.Failed && s != services.New {
					allDone = false
				}
			}
			if allDone {
				break
			}
			time.Sleep(time.Second)
		}
	})
	return
}

func scenariosC08() []scenario {
	deadSeed := func() *ring.Desc {
		d := ring.NewDesc()
		d.Ingesters["dead"] = ring.InstanceDesc{Id: "dead", Addr: "addr-dead", Zone: "z", State: ring.ACTIVE, Timestamp: time.Now().Unix() - 1000, Tokens: []uint32{9, 10}, RegisteredTimestamp: time.Now().Unix() - 2000}
		return d
	}
	_ = deadSeed
	joiningSeed := func() *ring.Desc {
		d := ring.NewDesc()
		d.Ingesters["a"] = ring.InstanceDesc{Id: "a", Addr: "10.0.0.1:1", Zone: "z", State: ring.JOINING, Timestamp: time.Now().Unix() - 100, Tokens: []uint32{5, 6}, RegisteredTimestamp: time.Now().Unix() - 200}
		return d
	}
	scs := []scenario{
		{name: "full-join", lcs: []lcSpec{{id: "a", joinAfter: 1500 * time.Millisecond, observe: 2 * time.Second}}, actions: []action{{at: 2 * time.Second, kind: "ready", who: "a"}, {at: 9 * time.Second, kind: "ready", who: "a"}}},
		{name: "full-join-immediate-two", lcs: []lcSpec{{id: "a"}, {id: "b", joinAfter: 1500 * time.Millisecond}}, actions: []action{{at: 4 * time.Second, kind: "ready", who: "b"}}, horizon: 14 * time.Second},
		{name: "full-join-observe-two", lcs: []lcSpec{{id: "a", joinAfter: 1500 * time.Millisecond, observe: 2 * time.Second, ringHealth: true}, {id: "b", joinAfter: 1500 * time.Millisecond, observe: 2 * time.Second}}, actions: []action{{at: 3 * time.Second, kind: "ready", who: "a"}, {at: 8 * time.Second, kind: "ready", who: "a"}}, horizon: 14 * time.Second},
		{name: "full-stop-unregister", lcs: []lcSpec{{id: "a", unregister: true}, {id: "b"}}, actions: []action{{at: 6 * time.Second, kind: "stop", who: "a"}}, horizon: 14 * time.Second},
		{name: "full-stop-keep", lcs: []lcSpec{{id: "a"}}, actions: []action{{at: 3 * time.Second, kind: "stop", who: "a"}, {at: 1 * time.Second, kind: "readonly-on", who: "a"}}, horizon: 12 * time.Second},
		{name: "basic-two", lcs: []lcSpec{{id: "a", basic: true, unregister: true}, {id: "b", basic: true, observe: 2 * time.Second}}, actions: []action{{at: 7 * time.Second, kind: "stop", who: "a"}}, horizon: 14 * time.Second},
		// heartbeat period <= observe period: the observe phase itself must heartbeat. The periods are chosen so that the
		// start-up select never has the observe timer and a heartbeat tick ready together within the deviation bound
		// (Go picks among ready cases at random, which no scheduler hook can decide).
		{name: "basic-observe-long", lcs: []lcSpec{{id: "a", basic: true, heartbeat: 3 * time.Second, observe: 3250 * time.Millisecond}, {id: "b", basic: true, heartbeat: 3 * time.Second, observe: 6250 * time.Millisecond}}, horizon: 11 * time.Second},
		// token hand-over: b leaves (entry kept), a — still pending — claims b's tokens, then finishes joining with them
		{name: "hand-over", lcs: []lcSpec{{id: "a", joinAfter: 8 * time.Second}, {id: "b"}}, actions: []action{{at: 3 * time.Second, kind: "stop", who: "b"}, {at: 5 * time.Second, kind: "claim", who: "a", arg: "b"}, {at: 10 * time.Second, kind: "ready", who: "a"}}, horizon: 14 * time.Second},
		// a new incarnation finds its entry JOINING with tokens (the previous one died while joining); it heartbeats as
		// PENDING (period 3 s) before it joins again (after 4.25 s; the two timers never fall due together): the inherited tokens stay
		{name: "restart-from-joining", seed: joiningSeed, lcs: []lcSpec{{id: "a", joinAfter: 4250 * time.Millisecond, heartbeat: 3 * time.Second}, {id: "b"}}, actions: []action{{at: 8 * time.Second, kind: "ready", who: "a"}}, horizon: 10 * time.Second},
		{name: "basic-autoforget", seed: nil, lcs: []lcSpec{{id: "a", basic: true, autoForget: 8 * time.Second}, {id: "b", basic: true}}, actions: []action{{at: 2 * time.Second, kind: "stop", who: "b"}}, horizon: 22 * time.Second},
		// auto-forget looks at heartbeat age only: a member that is JOINING (observing its tokens) with fresh heartbeats stays
		{name: "autoforget-vs-joining", lcs: []lcSpec{{id: "a", basic: true, autoForget: 8 * time.Second, heartbeat: 2 * time.Second}, {id: "b", joinAfter: 1500 * time.Millisecond, observe: 3 * time.Second, heartbeat: 5250 * time.Millisecond}}, horizon: 9 * time.Second}, // b's heartbeat off the half-second grid: its observe timer (join commit + 3 s) can never fall due together with a tick
		// several own-entry updates within one second, then a heartbeat: the published heartbeat time never goes back
		{name: "basic-readonly-burst", lcs: []lcSpec{{id: "a", basic: true, heartbeat: 3 * time.Second}}, actions: []action{{at: 500 * time.Millisecond, kind: "readonly-on", who: "a"}, {at: 500 * time.Millisecond, kind: "readonly-off", who: "a"}, {at: 500 * time.Millisecond, kind: "readonly-on", who: "a"}, {at: 500 * time.Millisecond, kind: "readonly-off", who: "a"}}, horizon: 8 * time.Second},
		// external state-change requests (Lifecycler.ChangeState) in every state: granted along the documented edges only.
		// Heartbeat / join timers lie beyond the latest instant a (delayed) request can still be in flight: a request
		// waiting for the loop together with a timer that has fired would leave the pick to Go's select
		{name: "full-change-state-pending", lcs: []lcSpec{{id: "a", joinAfter: 6250 * time.Millisecond, heartbeat: 9250 * time.Millisecond}}, actions: []action{{at: 500 * time.Millisecond, kind: "change-state", who: "a", arg: "LEAVING"}, {at: 1 * time.Second, kind: "change-state", who: "a", arg: "JOINING"}, {at: 1500 * time.Millisecond, kind: "change-state", who: "a", arg: "LEAVING"}, {at: 2 * time.Second, kind: "change-state", who: "a", arg: "PENDING"}}, horizon: 9 * time.Second},
		// an external PENDING→ACTIVE (hand-over style) before the join timer: when the timer fires the lifecycler is no longer pending
		{name: "full-change-state-early-active", lcs: []lcSpec{{id: "a", joinAfter: 6250 * time.Millisecond, observe: 2 * time.Second, heartbeat: 9250 * time.Millisecond}}, actions: []action{{at: 1 * time.Second, kind: "change-state", who: "a", arg: "ACTIVE"}}, horizon: 9 * time.Second},
		{name: "full-change-state-active", lcs: []lcSpec{{id: "a", heartbeat: 7250 * time.Millisecond}}, actions: []action{{at: 1 * time.Second, kind: "change-state", who: "a", arg: "PENDING"}, {at: 1500 * time.Millisecond, kind: "change-state", who: "a", arg: "JOINING"}, {at: 2 * time.Second, kind: "change-state", who: "a", arg: "LEAVING"}, {at: 2500 * time.Millisecond, kind: "change-state", who: "a", arg: "ACTIVE"}, {at: 4 * time.Second, kind: "change-state", who: "a", arg: "PENDING"}}, horizon: 8 * time.Second},
		// readiness with ring-health: a member that shows up (PENDING, then JOINING) after the probed lifecycler's last own write
		{name: "ready-vs-late-joiner", lcs: []lcSpec{{id: "a", ringHealth: true}, {id: "b", startAt: 2 * time.Second, joinAfter: 1500 * time.Millisecond, observe: 2 * time.Second}}, actions: []action{{at: 2500 * time.Millisecond, kind: "ready", who: "a"}, {at: 4 * time.Second, kind: "ready", who: "a"}, {at: 7 * time.Second, kind: "ready", who: "a"}}, horizon: 9 * time.Second},
		{name: "mixed", lcs: []lcSpec{{id: "a", joinAfter: 1500 * time.Millisecond}, {id: "b", basic: true}}, horizon: 14 * time.Second},
		{name: "three-joiners", lcs: []lcSpec{{id: "a", joinAfter: 1500 * time.Millisecond}, {id: "b", joinAfter: 1500 * time.Millisecond}, {id: "c", basic: true}}, horizon: 9 * time.Second},
		{name: "no-heartbeat", lcs: []lcSpec{{id: "a", joinAfter: 1500 * time.Millisecond}, {id: "b", basic: true, noHeartbeat: true}}, actions: []action{{at: 6 * time.Second, kind: "stop", who: "b"}}, horizon: 12 * time.Second},
		{name: "operator-edits-entry", lcs: []lcSpec{{id: "a"}}, actions: []action{{at: 2 * time.Second, kind: "external-edit", who: "a"}, {at: 3 * time.Second, kind: "ready", who: "a"}}, horizon: 12 * time.Second},
	}
	for k := range scs {
		scs[k].oneProcess = true
	}
	return scs
}

func TestC08(t *testing.T) {
	rep := ev.NewReport("C08", "lifecyclers")
	bound := 3
	if ev.Thorough() {
		bound = 4
	}
	if b := os.Getenv("VERIF_BOUND"); b != "" {
		fmt.Sscan(b, &bound)
	}
	scs := scenariosC08()
	if f := os.Getenv("VERIF_SCENARIO"); f != "" { // development aid: only the scenarios whose name contains f
		var keep []scenario
		for _, s := range scs {
			if strings.Contains(s.name, f) {
				keep = append(keep, s)
			}
		}
		scs = keep
	}
	var names []string
	for _, s := range scs {
		names = append(names, s.name)
	}
	rep.Bound = fmt.Sprintf("scenarios %v: 1..2 real lifecyclers (full Lifecycler and BasicLifecycler with InstanceRegister + LeaveOnStopping + TokensPersistency (+ AutoForget) delegates) sharing one recording store under a virtual clock (heartbeat 5 s, join-after 0/1.5 s, observe 0/2 s, tick 0.5 s, horizon 12..24 s); choice points: which pending store operation commits next, whether its first attempt loses a race (function re-run), when external actions (stop with/without unregister, read-only, readiness probes) fire, when the clock ticks; all schedules with <= %d departures from the default order", names, bound)
	rep.Rule = "delay-bounded stateless DFS on the real lifecyclers; monitor over every recorded write: only the writer's own entry changes (auto-forget of long-dead entries excepted), published states follow the legal edges, heartbeat timestamps never decrease and are refreshed every period while the store is responsive, registration time is kept, tokens are sorted/distinct/NumTokens and not visible as anybody else's when chosen, readiness never reported before ACTIVE with tokens (and a healthy ring when so configured); distinct_nontrivial = distinct (scenario, final ring, number of writes)"
	deadline := ev.Deadline(8 * time.Minute)
	for _, sc := range scs {
		x := &sched.Explorer{Bound: bound, Report: rep, Deadline: deadline, Scenario: sc.name, AuditN: 200, Run: func(c *sched.Chooser) sched.Result { return runC08(t, sc, c) }}
		if !x.ExploreOrReplay() {
			rep.NotExhaustive("deadline or violation cap in " + sc.name)
			break
		}
		rep.Add("scenarios_completed", 1)
		rep.Sample(fmt.Sprintf("%s: %d executions, %d distinct outcomes", sc.name, x.Execs, x.Outcomes()))
	}
	if err := rep.Write(); err != nil {
		t.Fatal(err)
	}
}

// sortedKeys makes every oracle loop deterministic (violation messages are compared by the replay audit).
func sortedKeys[V any](m map[string]V) []string {
	ks := make([]string, 0, len(m))
	for k := range m {
		ks = append(ks, k)
	}
	sort.Strings(ks)
	return ks
}
