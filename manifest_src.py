HOOK_COMMITS = []  # filled by gen (git log of /repo commits whose subject starts with "verif hook")
ENGINES = [
 {"name": "enum", "path": "h/enum", "serves_properties": ["C01"], "kind_free_text": "E1: small-scope exhaustive enumeration of inputs / operation sequences on the real functions against an independent reference model"},
]
ALL = ["C%02d" % i for i in range(1, 21)]
CLAIMS = [
 {"id": "C01", "engine": "enum", "design_ref": "DESIGN.md §4 C01",
  "technique": "explicit-state small-scope enumeration: every ring descriptor of a bounded universe × boundary keys × ops × RF × zone-awareness on the real Ring.Get vs an independent linear-scan reference",
  "text": "Exhaustive within the stated bound: every descriptor (1..3 instances quick / 1..4 thorough, 0..2 tokens each from {0,1,7,2^32-2,2^32-1}, 3 zones incl. none, 5-6 health classes incl. the exact heartbeat-timeout boundary) × RF × zone-awareness × 4 ops × every boundary key × 3 buffer variants is looked up on the real ring client and compared with a reference that shares no code with it. Beyond unit tests: all boundary classes and all small rings, not a few random 128-token rings.",
  "note": "Bound: rings above 4 instances / 2 tokens per instance and RF above 5 are not explored; keys are one representative per gap/token (argued complete because code and spec see keys only via comparisons). Ring fed through the verif hook VerifUpdateRingState (same code path as the KV watch callback)."},
]
NOT_APPLICABLE = [{"property_id": p, "reason": "check not built yet in this session (planned, see DESIGN.md §4); not a limit of the technique"} for p in ALL if p not in [c["id"] for c in CLAIMS]]
import subprocess
try:
    out = subprocess.run(["git", "-C", "/repo", "log", "--format=%H %s"], capture_output=True, text=True).stdout
    HOOK_COMMITS = [l.split()[0] for l in out.splitlines() if " verif hook" in l]
except Exception:
    pass
