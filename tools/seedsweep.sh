#!/bin/bash
# usage: seedsweep.sh [tier] [name-regex]  — run every kept seed (or those whose name matches the regex; results are then appended) (seeded/*/patch.diff) against the check of its property on a
# scratch worktree of /repo (so /repo stays free), write seeded/RESULTS.md.
T=${1:-quick}
F=${2:-.}
R=${SWEEP_REPO:-/tmp/repo-seeds}
git -C /repo worktree list | grep -q "$R " || git -C /repo worktree add --detach $R HEAD -q
git -C $R checkout -q --detach $(git -C /repo rev-parse HEAD) && git -C $R checkout -- .
OUT=${SWEEP_OUT:-/verif/seeded/RESULTS.md}
if [ "$F" = "." ]; then
echo "# Seeded changes vs the $T checks ($(date -u +%F))" > $OUT
echo >> $OUT
echo "| seed | check | verdict | first violation |" >> $OUT
echo "|---|---|---|---|" >> $OUT
fi
for d in /verif/seeded/C*/; do
  N=$(basename $d); C=${N:0:3}
  echo "$N" | grep -Eq "$F" || continue
  L=$(SEED_REPO=$R /verif/tools/seedtest.sh $N $C $T | head -1)
  RC=$(echo "$L" | sed -n 's/.* exit=\([0-9]*\) .*/\1/p')
  V=MISSED; [ "$RC" = "1" ] && V=DETECTED; [ "$RC" = "2" ] && V=HARNESS-ERROR
  W=$(echo "$L" | sed 's/.*what: //' | cut -c1-220 | tr '|' '/')
  echo "| $N | $C | $V | $W |" >> $OUT
  echo "$N $V"
done
