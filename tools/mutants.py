#!/usr/bin/env python3
"""Apply each hand-written mutant to a scratch worktree of /repo (default /tmp/repo-seeds, created on demand; /repo itself
stays untouched), run the property's quick check on it (VERIF_REPO), revert. Writes mutants/RESULTS.md.
usage: tools/mutants.py [id-prefix ...]"""
import subprocess, sys, os, time
sys.path.insert(0, "/verif/mutants")
from mutants import MUTANTS
sel = sys.argv[1:]
rows = []
R = os.environ.get("MUT_REPO", "/tmp/repo-seeds")
if not os.path.isdir(R):
    subprocess.run(["git", "-C", "/repo", "worktree", "add", "--detach", R, "HEAD", "-q"], check=True)
head = subprocess.run(["git", "-C", "/repo", "rev-parse", "HEAD"], capture_output=True, text=True).stdout.strip()
subprocess.run(["git", "-C", R, "checkout", "-q", "--detach", head], check=True)
subprocess.run(["git", "-C", R, "checkout", "--", "."], check=True)
for mid, prop, path, old, new, what in MUTANTS:
    if sel and not any(mid.startswith(s) for s in sel):
        continue
    p = os.path.join(R, path)
    src = open(p).read()
    if src.count(old) != 1:
        rows.append((mid, prop, what, "PATTERN-DRIFT", 0)); continue
    open(p, "w").write(src.replace(old, new))
    t0 = time.time()
    try:
        b = subprocess.run(["go", "build", "./..."], cwd=R, capture_output=True, text=True, env=dict(os.environ, GOFLAGS="-mod=mod", GOPROXY="off"))
        if b.returncode != 0:
            rows.append((mid, prop, what, "DOES-NOT-COMPILE", 0)); continue
        r = subprocess.run(["./check", prop, "quick"], cwd="/verif", capture_output=True, text=True, env=dict(os.environ, VERIF_REPO=R))
        nviol = r.stdout.count("VIOLATION property=")
        verdict = {0: "MISSED", 1: "DETECTED", 2: "HARNESS-ERROR"}.get(r.returncode, "rc=%d" % r.returncode)
        first = ""
        for line in r.stdout.splitlines():
            if line.strip().startswith("what:"):
                first = line.strip()[:260]; break
        rows.append((mid, prop, what, verdict + (" (%d)" % nviol if nviol else ""), time.time() - t0, first))
    finally:
        subprocess.run(["git", "-C", R, "checkout", "--", "."])
    print(rows[-1][:5], flush=True)
with open("/verif/mutants/RESULTS.md", "a" if sel else "w") as f:
    if not sel:
        f.write("# Detection demos: hand-written mutants vs the quick checks\n\nEach row: one textual edit of /repo (see mutants.py), `./check <property> quick`, edit reverted.\n\n| mutant | property | what | verdict | s | first violation |\n|---|---|---|---|---|---|\n")
    for r in rows:
        f.write("| %s | %s | %s | %s | %.0f | %s |\n" % (r[0], r[1], r[2], r[3], r[4], (r[5] if len(r) > 5 else "").replace("|", "/")))
