HOOK_COMMITS = []  # filled by gen (git log of /repo commits whose subject starts with "verif hook")
ENGINES = [
 {"name": "enum", "path": "h/enum", "serves_properties": ["C01", "C02", "C03", "C05", "C14", "C15", "C16", "C20"], "kind_free_text": "E1: small-scope exhaustive enumeration of inputs / operation sequences on the real functions against an independent reference model"},
]
ALL = ["C%02d" % i for i in range(1, 21)]
CLAIMS = [
 {"id": "C01", "engine": "enum", "design_ref": "DESIGN.md §4 C01",
  "technique": "explicit-state small-scope enumeration: every ring descriptor of a bounded universe × boundary keys × ops × RF × zone-awareness on the real Ring.Get vs an independent linear-scan reference",
  "text": "Exhaustive within the stated bound: every descriptor (1..3 instances quick / 1..4 thorough, 0..2 tokens each from {0,1,7,2^32-2,2^32-1}, 3 zones incl. none, 5-6 health classes incl. the exact heartbeat-timeout boundary) × RF × zone-awareness × 4 ops × every boundary key × 3 buffer variants is looked up on the real ring client and compared with a reference that shares no code with it. Beyond unit tests: all boundary classes and all small rings, not a few random 128-token rings.",
  "note": "Bound: rings above 4 instances / 2 tokens per instance and RF above 5 are not explored; keys are one representative per gap/token (argued complete because code and spec see keys only via comparisons). Ring fed through the verif hook VerifUpdateRingState (same code path as the KV watch callback)."},
 {"id": "C14", "engine": "enum", "design_ref": "DESIGN.md §4 C14",
  "technique": "explicit-state small-scope enumeration: every token→owner assignment over the boundary token alphabet {0,1,2,2^32-3..2^32-1}; reported ranges vs the real lookup for every boundary key",
  "text": "Exhaustive within the bound: all assignments of the 6 alphabet tokens to up to 3-4 instances in 8 zone layouts (RF = #zones = 1..3) and to 1..3 partitions (<=3 tokens per owner, token-less owners included); for every owner and each of 15 boundary keys IncludesKey(ranges) must equal membership in the real Get / ActivePartitionForKey answer; ranges must be sorted, paired, disjoint and tile each zone / the partition ring.",
  "note": "Bound: token alphabet of 6 values, <=3 tokens per owner; all instances ACTIVE and healthy, all partitions active (as the property states); random large rings not run (different technique)."},
 {"id": "C02", "engine": "enum", "design_ref": "DESIGN.md §4 C02",
  "technique": "explicit-state small-scope enumeration of rings; for each, ALL minimal acknowledging write subsets × ALL minimal answering read subsets (instances or whole zones) from the real lookups must intersect",
  "text": "Exhaustive within the bound: rings of 1..5 (thorough 6) single-token instances, every vector of 5 health classes, every zone assignment up to renaming (<=5 zones, so zones <,=,> RF), RF 1..4 (5), zone-awareness on/off, every start position. The write set and MaxErrors come from the real Get(key,Write), the read set and MaxErrors/MaxUnavailableZones from the real GetReplicationSetForOperation(Read); every pair of minimal successful subsets is enumerated.",
  "note": "Success criteria of the executors (len-MaxErrors acks; len-MaxErrors results or all instances of zones-MaxUnavailableZones zones) are taken from C10/C11, where they are checked against the real DoBatch / DoUntilQuorum. One token per instance (token placement only selects the write set, all start positions are enumerated)."},
 {"id": "C03", "engine": "enum", "design_ref": "DESIGN.md §4 C03",
  "technique": "explicit-state small-scope enumeration: all pairs, triples and 4-step delivery histories (orders, regroupings, duplicates, forwarded deltas) over a descriptor universe, real Merge vs last-writer-wins reference",
  "text": "Exhaustive within the bound: instance ring — all triples over 49 (thorough 343) descriptors built from 2 content tables (each (id,timestamp) one content; unsorted/duplicated/empty token lists; LEFT tombstones carrying tokens), and all 4-sequences (start state + 3 updates, 4 delivery forms); partition ring — all triples over 65 (325) descriptors with independent state and lock registers and owner tombstones, all pairs over 845 (4225). Checked on the real Merge(other,false): idempotence, commutativity, associativity, delta sufficiency (also into A⊔X), nil change ⇒ unchanged, normal form, newer timestamp wins, removal wins ties.",
  "note": "Proviso of the property enforced by construction (one content per (entry,timestamp), disjoint tokens). Random larger descriptors are not run. Merge(…, localCAS=true) is deliberately non-commutative and is exercised in C04/C05/C06 instead."},
 {"id": "C05", "engine": "enum", "design_ref": "DESIGN.md §4 C05",
  "technique": "explicit-state BFS over ring states reachable by real Merge calls (gossip and local-CAS) from a colliding-token alphabet; invariant + reference collision rule in every state; each state fed to a real ring client",
  "text": "Breadth-first search to depth 3 from the empty ring over 300+ operations (1- and 2-entry gossip descriptors in 5 states × 3 timestamps × 10 raw token lists incl. unsorted/duplicated, local-CAS put/remove via Merge(…,true)); every transition replays the real merges on a fresh descriptor; every reachable state must satisfy single-owner/sorted/LEFT-has-no-tokens, equal a reference (LWW + non-LEAVING beats LEAVING, else smaller id), and a real Ring fed the state must answer all query kinds without ErrInconsistentTokensInfo or panic.",
  "note": "Bound: 2 ids quick / 3 thorough, token space {0,1,2^32-1}, depth 3. The per-collision winner rule is asserted, not token-level convergence of replicas that resolved collisions at different times (see DESIGN §5)."},
 {"id": "C15", "engine": "enum", "design_ref": "DESIGN.md §4 C15",
  "technique": "explicit-state small-scope enumeration (routing, replication sets) + explicit-state BFS over editor/lifecycler histories (state machine)",
  "text": "Routing: every partition ring of 1..3 (4) partitions × token assignment over {0,1,2,7,2^32-2,2^32-1} × state vector {pending,active,inactive}, every boundary key: real ActivePartitionForKey / ActivePartitionBatchRing.Get / GetKeysByPartition (all key tuples <=3) vs linear clockwise scan. Replication sets: all 5^6 owner-status vectors (not owner/healthy/stale by 1s/wrong state/unknown) × zone layouts: exactly the healthy registered owners, error iff a partition has none.",
  "note": "The partition state-machine half (legal edges, lock, promotion, deletion) is covered by the lifecycle part when present in checks_table (see DESIGN.md status table); rings above 4 partitions not explored; multi-partition-owner variant not covered."},
 {"id": "C16", "engine": "enum", "design_ref": "DESIGN.md §4 C16",
  "technique": "exhaustive enumeration of the randomness source's answers (scripted draws) and complete enumeration of the spread-minimising generator's finite domain up to N",
  "text": "Random generator: every sequence of 5 scripted draws over {0,1,2,2^32-1} × every taken subset × requested -1..4 on the real generator with injected randomness. Spread-minimising: zones 0..7 × indexes 0..128 (thorough 1024): 512 sorted distinct tokens ≡ zone mod 8, equal to the tokens the largest generator attributes to the index, globally disjoint, pure; every prefix of instances has ownership spread <=1%; GenerateTokens(n,taken) filtering; partition rings from AddPartition.",
  "note": "Indexes above N (128 quick, 1024 thorough) are not covered (property mentions 2000). Hooks: injectable rand.Source, tokens-by-instance."},
 {"id": "C20", "engine": "enum", "design_ref": "DESIGN.md §4 C20",
  "technique": "exhaustive enumeration of all short strings over a separator-rich 13-byte alphabet, all short lists, all hop chains up to length 4, against an independent reference parser",
  "text": "All 402k strings of length <=5 over {a,Z,0,-,.,|,:,/,=,space,NUL,DEL,0xC3}, all single bytes, the 149/150/151 boundary, all lists of <=4 elements from a 10-element pool: TenantID/TenantIDs/ExtractWithMetadata vs the documented rules, mutual agreement and metadata independence. Propagation: 1003 org ids × all 340 chains of <=4 hops over HTTP/gRPC inject-extract and the auth middlewares arrive byte-identical; absent/empty/conflicting/multi-valued cases rejected.",
  "note": "Coverage-guided fuzzing named in the quantifier is a different family and is not run. HTTP hops use net/http header maps (no wire encoding)."},
]
NOT_APPLICABLE = [{"property_id": p, "reason": "check not built yet in this session (planned, see DESIGN.md §4); not a limit of the technique"} for p in ALL if p not in [c["id"] for c in CLAIMS]]
import subprocess
try:
    out = subprocess.run(["git", "-C", "/repo", "log", "--format=%H %s"], capture_output=True, text=True).stdout
    HOOK_COMMITS = [l.split()[0] for l in out.splitlines() if " verif hook" in l]
except Exception:
    pass
