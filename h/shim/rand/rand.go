// Package rand mirrors the subset of math/rand used by dskit. Perm / Shuffle / Int63n / Intn are
// environment choice points of verif/sched when the harness asks for it (Enumerate=true);
// otherwise they are deterministic (identity permutation, 0) so that executions replay exactly.
package rand

import (
	mrand "math/rand"

	"verif/sched"
)

type Rand = mrand.Rand
type Source = mrand.Source
type Source64 = mrand.Source64

func New(s Source) *Rand          { return mrand.New(s) }
func NewSource(seed int64) Source { return mrand.NewSource(seed) }

// Enumerate makes Perm/Shuffle explorer choices (all permutations). Costly decides whether a
// non-identity permutation counts as a deviation.
var Enumerate = false
var Costly = false

func fact(n int) int {
	f := 1
	for i := 2; i <= n; i++ {
		f *= i
	}
	return f
}

func kthPerm(n, k int) []int {
	// Lehmer code; k = 0 is the identity
	elems := make([]int, n)
	for i := range elems {
		elems[i] = i
	}
	out := make([]int, 0, n)
	f := fact(n)
	for i := n; i >= 1; i-- {
		f /= i
		j := k / f
		k %= f
		out = append(out, elems[j])
		elems = append(elems[:j], elems[j+1:]...)
	}
	return out
}

func Perm(n int) []int {
	if n <= 1 || !Enumerate || !sched.On() || n > 6 {
		return kthPerm(n, 0)
	}
	return kthPerm(n, sched.Choose("rand.Perm", fact(n), Costly))
}

func Shuffle(n int, swap func(i, j int)) {
	if n <= 1 || !Enumerate || !sched.On() || n > 6 {
		return
	}
	p := kthPerm(n, sched.Choose("rand.Shuffle", fact(n), Costly))
	// apply permutation p (element at position i moves from p[i]) via swaps (selection)
	pos := make([]int, n) // pos[v] = current index of original element v
	at := make([]int, n)  // at[i] = original element currently at index i
	for i := range pos {
		pos[i], at[i] = i, i
	}
	for i := 0; i < n; i++ {
		j := pos[p[i]]
		if j != i {
			swap(i, j)
			vi, vj := at[i], at[j]
			at[i], at[j] = vj, vi
			pos[vi], pos[vj] = j, i
		}
	}
}

func Int63n(n int64) int64 { return 0 }
func Int63() int64         { return 0 }
func Intn(n int) int       { return 0 }
func Int() int             { return 0 }
func Int31n(n int32) int32 { return 0 }
func Uint32() uint32       { return 0 }
func Float64() float64     { return 0 }
func Read(p []byte) (int, error) {
	for i := range p {
		p[i] = byte(i)
	}
	return len(p), nil
}
func Seed(int64) {}
