// C18 — modules initialise, start and stop in dependency order for every graph.
// Part "init" (engine E1): every DAG on <=4 (5) labelled modules built through the real
// RegisterModule/AddDependency, every target subset and order, every init-function mask; every
// short sequence of AddDependency calls for cycle rejection (run in a guarded way: an accepted
// cyclic edge makes the real code recurse without bound).
// Part "runtime" (engine E2): DAG shapes on 3 modules with harness inner services whose functions
// park under the controlled scheduler; real (unmodified) wrappers and services.Manager.
package c18

import (
	"context"
	"errors"
	"fmt"
	"os"
	"sort"
	"strings"
	"testing"
	"testing/synctest"
	"time"

	"github.com/go-kit/log"

	"github.com/grafana/dskit/modules"
	"github.com/grafana/dskit/services"

	"verif/enum"
	"verif/ev"
	"verif/sched"
)

func names(n int) []string {
	out := make([]string, n)
	for i := range out {
		out[i] = string(rune('a' + i))
	}
	return out
}

// all DAGs on n labelled nodes: edge (i depends on j) as bit i*n+j; acyclic check by DFS
func acyclic(n int, mask uint32) bool {
	state := make([]int, n)
	var visit func(i int) bool
	visit = func(i int) bool {
		if state[i] == 1 {
			return false
		}
		if state[i] == 2 {
			return true
		}
		state[i] = 1
		for j := 0; j < n; j++ {
			if mask&(1<<(i*n+j)) != 0 && !visit(j) {
				return false
			}
		}
		state[i] = 2
		return true
	}
	for i := 0; i < n; i++ {
		if !visit(i) {
			return false
		}
	}
	return true
}

func closure(n int, mask uint32, i int) map[int]bool {
	out := map[int]bool{}
	var rec func(k int)
	rec = func(k int) {
		for j := 0; j < n; j++ {
			if mask&(1<<(k*n+j)) != 0 && !out[j] {
				out[j] = true
				rec(j)
			}
		}
	}
	rec(i)
	return out
}

func TestC18Init(t *testing.T) {
	rep := ev.NewReport("C18", "init-order")
	maxN := 4
	if ev.Thorough() {
		maxN = 5
	}
	rep.Bound = fmt.Sprintf("every DAG on 1..%d labelled modules (edges inserted in ascending and in descending order; every insertion order for <=3 modules), every non-empty target list (each subset in ascending and descending order), every init mask per module ∈ {no init function, init returns no service, init returns a service} (all masks up to 4 modules, 3 representative masks for 5)", maxN)
	rep.Rule = "real InitModuleServices: every needed module (targets and their transitive dependencies) that has an init function is initialised exactly once and after all modules it depends on; no other module is initialised; the returned map holds exactly the needed modules that produced a service; distinct_nontrivial = DAGs with at least one shared dependency (diamond or multi-target overlap)"
	deadline := ev.Deadline(8 * time.Minute)
	for n := 1; n <= maxN; n++ {
		nm := names(n)
		var dags []uint32
		for mask := uint32(0); mask < 1<<(n*n); mask++ {
			diag := false
			for i := 0; i < n; i++ {
				if mask&(1<<(i*n+i)) != 0 {
					diag = true
				}
			}
			if !diag && acyclic(n, mask) {
				dags = append(dags, mask)
			}
		}
		rep.Set(fmt.Sprintf("dags_n%d", n), len(dags))
		masks := 1
		for i := 0; i < n; i++ {
			masks *= 3
		}
		maskList := make([]int, 0, masks)
		if n <= 4 {
			for m := 0; m < masks; m++ {
				maskList = append(maskList, m)
			}
		} else {
			maskList = []int{masks - 1, masks / 2, 1*81 + 2*27 + 0*9 + 1*3 + 2} // all services; mixed; mixed
		}
		ok := enum.Par(len(dags), deadline, func() bool { return rep.NumViolations() >= 10 }, func(di int) {
			dag := dags[di]
			var edges [][2]int
			for i := 0; i < n; i++ {
				for j := 0; j < n; j++ {
					if dag&(1<<(i*n+j)) != 0 {
						edges = append(edges, [2]int{i, j})
					}
				}
			}
			orders := [][][2]int{edges}
			if len(edges) > 1 {
				rev := make([][2]int, len(edges))
				for i, e := range edges {
					rev[len(edges)-1-i] = e
				}
				orders = append(orders, rev)
				if n <= 3 {
					orders = permEdges(edges)
				}
			}
			shared := false
			cnt := map[int]int{}
			for _, e := range edges {
				cnt[e[1]]++
				if cnt[e[1]] > 1 {
					shared = true
				}
			}
			if shared {
				rep.Distinct(fmt.Sprintf("n%d/%d", n, dag))
			}
			rep.State(1)
			for oi, order := range orders {
				for _, im := range maskList {
					kinds := make([]int, n)
					x := im
					for i := range kinds {
						kinds[i] = x % 3
						x /= 3
					}
					for tm := 1; tm < 1<<n; tm++ {
						for _, desc := range []bool{false, true} {
							if oi > 0 && (desc || im != maskList[0]) {
								continue // other insertion orders: one mask, ascending targets
							}
							var targets []string
							for i := 0; i < n; i++ {
								k := i
								if desc {
									k = n - 1 - i
								}
								if tm&(1<<k) != 0 {
									targets = append(targets, nm[k])
								}
							}
							var initLog []string
							mm := modules.NewManager(log.NewNopLogger())
							for i := 0; i < n; i++ {
								i := i
								switch kinds[i] {
								case 0:
									mm.RegisterModule(nm[i], nil)
								case 1:
									mm.RegisterModule(nm[i], func() (services.Service, error) { initLog = append(initLog, nm[i]); return nil, nil })
								case 2:
									mm.RegisterModule(nm[i], func() (services.Service, error) {
										initLog = append(initLog, nm[i])
										return services.NewIdleService(nil, nil), nil
									})
								}
							}
							bad := ""
							for _, e := range order {
								if err := mm.AddDependency(nm[e[0]], nm[e[1]]); err != nil {
									bad = fmt.Sprintf("AddDependency(%s,%s) rejected an acyclic edge: %v", nm[e[0]], nm[e[1]], err)
								}
							}
							var svcs map[string]services.Service
							var err error
							if bad == "" {
								svcs, err = mm.InitModuleServices(targets...)
								if err != nil {
									bad = "InitModuleServices: " + err.Error()
								}
							}
							rep.Eval(1)
							rep.Trans(1)
							if bad == "" {
								needed := map[int]bool{}
								for i := 0; i < n; i++ {
									if tm&(1<<i) != 0 {
										needed[i] = true
										for j := range closure(n, dag, i) {
											needed[j] = true
										}
									}
								}
								pos := map[string]int{}
								for p, m := range initLog {
									if _, dup := pos[m]; dup {
										bad = fmt.Sprintf("module %s initialised twice (order %v)", m, initLog)
									}
									pos[m] = p
								}
								for i := 0; i < n && bad == ""; i++ {
									_, inited := pos[nm[i]]
									want := needed[i] && kinds[i] != 0
									if inited != want {
										bad = fmt.Sprintf("module %s initialised=%v, needed=%v has-init=%v (order %v)", nm[i], inited, needed[i], kinds[i] != 0, initLog)
									}
									if inited {
										for j := range closure(n, dag, i) {
											if pj, ok := pos[nm[j]]; ok && pj > pos[nm[i]] {
												bad = fmt.Sprintf("module %s initialised before its dependency %s (order %v)", nm[i], nm[j], initLog)
											}
										}
									}
									_, hasSvc := svcs[nm[i]]
									if hasSvc != (needed[i] && kinds[i] == 2) {
										bad = fmt.Sprintf("service map has %s = %v, want %v", nm[i], hasSvc, needed[i] && kinds[i] == 2)
									}
								}
							}
							if bad != "" {
								rep.Violate(fmt.Sprintf("init:n%d:dag%d:o%d:m%d:t%v", n, dag, oi, im, targets), fmt.Sprintf("modules %v, edges (module→dependency) %v inserted as %v, init kinds %v (0 none,1 no service,2 service), targets %v: %s", nm, edgeNames(nm, edges), edgeNames(nm, order), kinds, targets, bad), nil)
							}
						}
					}
				}
			}
			if di%(len(dags)/3+1) == 1 {
				rep.Sample(fmt.Sprintf("n=%d edges %v", n, edgeNames(nm, edges)))
			}
		})
		if !ok {
			rep.NotExhaustive("deadline or violation cap")
			break
		}
	}
	rep.Trace(rep.Evaluations)
	if err := rep.Write(); err != nil {
		t.Fatal(err)
	}
}

func edgeNames(nm []string, e [][2]int) []string {
	var out []string
	for _, x := range e {
		out = append(out, nm[x[0]]+"→"+nm[x[1]])
	}
	return out
}

func permEdges(e [][2]int) [][][2]int {
	if len(e) <= 1 {
		return [][][2]int{append([][2]int(nil), e...)}
	}
	var out [][][2]int
	for i := range e {
		rest := append(append([][2]int(nil), e[:i]...), e[i+1:]...)
		for _, p := range permEdges(rest) {
			out = append(out, append([][2]int{e[i]}, p...))
		}
	}
	return out
}

// TestC18Cycles: every sequence of <=4 AddDependency calls over 3 modules (all ordered pairs incl. x→x).
// A call must fail iff the edge would close a cycle. After an accepted edge that closes a cycle the
// manager is not used any further (the real code would then recurse until the stack overflows).
func TestC18Cycles(t *testing.T) {
	rep := ev.NewReport("C18", "cycle-rejection")
	type cfg struct{ n, maxLen int }
	cfgs := []cfg{{3, 5}, {4, 4}}
	if ev.Thorough() {
		cfgs = []cfg{{3, 6}, {4, 5}}
	}
	rep.Bound = fmt.Sprintf("every sequence of AddDependency(x, y) calls over the modules, all ordered pairs including x→x: %v as {modules, max sequence length}", cfgs)
	rep.Rule = "the real AddDependency returns an error iff the new edge would close a cycle in the graph of accepted edges (a self-dependency is a cycle), and after every accepted edge DependenciesForModule of every module is exactly its transitive closure (whatever was asked before); distinct_nontrivial = sequences whose last edge closes a cycle"
	count := int64(0)
	for _, c := range cfgs {
		n, maxLen := c.n, c.maxLen
		nm := names(n)
		pairs := n * n
		var seq []int
		var rec func(g uint32)
		rec = func(g uint32) {
			if len(seq) == maxLen || rep.NumViolations() >= 10 {
				return
			}
			for p := 0; p < pairs; p++ {
				i, j := p/n, p%n
				// rebuild a fresh manager with the accepted prefix (managers cannot be cloned)
				m2 := modules.NewManager(log.NewNopLogger())
				for _, x := range nm {
					m2.RegisterModule(x, nil)
				}
				g2 := uint32(0)
				okPrefix := true
				for _, q := range seq {
					a, b := q/n, q%n
					wouldCycle := a == b || closure(n, g2, b)[a]
					err := m2.AddDependency(nm[a], nm[b])
					if err == nil && !wouldCycle {
						g2 |= 1 << (a*n + b)
					} else if err == nil && wouldCycle {
						okPrefix = false
						break // never touch a manager that holds a cycle again
					}
				}
				if !okPrefix {
					continue
				}
				wouldCycle := i == j || closure(n, g2, j)[i]
				err := m2.AddDependency(nm[i], nm[j])
				count++
				var names []string
				for _, q := range seq {
					names = append(names, nm[q/n]+"→"+nm[q%n])
				}
				names = append(names, nm[i]+"→"+nm[j])
				if wouldCycle {
					rep.Distinct(strings.Join(names, ","))
				}
				if (err != nil) != wouldCycle {
					key := "cycle:other:" + strings.Join(names, ",")
					if i == j {
						key = "cycle:self-dependency:" + strings.Join(names, ",")
					}
					rep.Violate(key, fmt.Sprintf("after accepted edges %v (module→dependency), AddDependency(%s, %s) returned err=%v but the edge closes a cycle = %v", names[:len(names)-1], nm[i], nm[j], err, wouldCycle), nil)
					continue
				}
				if err == nil {
					g3 := g2 | 1<<(i*n+j)
					bad := false
					for x := 0; x < n && !bad; x++ {
						want := closure(n, g3, x)
						got := map[string]bool{}
						for _, d := range m2.DependenciesForModule(nm[x]) {
							got[d] = true
						}
						for y := 0; y < n; y++ {
							if want[y] != got[nm[y]] {
								rep.Violate("deps:"+strings.Join(names, ","), fmt.Sprintf("after accepted edges %v (module→dependency), DependenciesForModule(%s) = %v, transitive closure says %s is a dependency = %v", names, nm[x], m2.DependenciesForModule(nm[x]), nm[y], want[y]), nil)
								bad = true
								break
							}
						}
					}
					if bad {
						continue
					}
					seq = append(seq, p)
					rec(g3)
					seq = seq[:len(seq)-1]
				}
			}
		}
		rec(0)
	}
	rep.Eval(count)
	rep.Trans(count)
	rep.State(count)
	rep.Sample("a→b, b→c, then c→a must be rejected; a→a must be rejected")
	rep.Trace(count)
	if err := rep.Write(); err != nil {
		t.Fatal(err)
	}
}

// ---------------- runtime ----------------

const (
	oNil   = 0
	oErr   = 1
	oBlock = 2
)

type shape struct {
	name  string
	edges [][2]int // module i depends on module j
}

var shapes = []shape{
	{"independent", nil},
	{"one-edge", [][2]int{{0, 1}}},
	{"chain", [][2]int{{0, 1}, {1, 2}}},
	{"fork", [][2]int{{0, 1}, {0, 2}}},
	{"join", [][2]int{{0, 2}, {1, 2}}},
	{"triangle", [][2]int{{0, 1}, {1, 2}, {0, 2}}},
}

type rscenario struct {
	shape   shape
	failMod int // -1 none
	failAt  string
	noSvc   int // module without a service (-1 none)
}

func (r rscenario) String() string {
	return fmt.Sprintf("%s[fail=%d@%s nosvc=%d]", r.shape.name, r.failMod, r.failAt, r.noSvc)
}

var errInner = errors.New("inner failure")

type lmon struct{ name string }

func (l lmon) Starting()                    { sched.Obs(l.name + " Starting") }
func (l lmon) Running()                     { sched.Obs(l.name + " Running") }
func (l lmon) Stopping(services.State)      { sched.Obs(l.name + " Stopping") }
func (l lmon) Terminated(services.State)    { sched.Obs(l.name + " Terminal") }
func (l lmon) Failed(services.State, error) { sched.Obs(l.name + " Terminal(failed)") }

func runRuntime(t *testing.T, sc rscenario, ch *sched.Chooser) (res sched.Result) {
	synctest.Test(t, func(t *testing.T) {
		e := sched.NewExec(ch)
		e.MaxSteps = 8000
		e.DelayBounded = true
		const n = 3
		nm := names(n)
		mm := modules.NewManager(log.NewNopLogger())
		inner := make([]*services.BasicService, n)
		for i := 0; i < n; i++ {
			i := i
			if i == sc.noSvc {
				mm.RegisterModule(nm[i], func() (services.Service, error) { return nil, nil })
				continue
			}
			out := func(at string) int {
				if sc.failMod == i && sc.failAt == at {
					return oErr
				}
				return oNil
			}
			start := func(ctx context.Context) error {
				sched.SetName(nm[i] + ":main")
				sched.Yield("start-enter")
				sched.Obs(nm[i] + " start-enter")
				if out("start") == oErr {
					return errInner
				}
				return nil
			}
			run := func(ctx context.Context) error {
				sched.SetName(nm[i] + ":main")
				sched.Yield("run-enter")
				if out("run") == oErr {
					sched.Obs(nm[i] + " run-fails")
					return errInner
				}
				<-ctx.Done()
				sched.Yield("run-unblocked")
				sched.Obs(nm[i] + " stop-requested")
				return nil
			}
			stop := func(error) error {
				sched.SetName(nm[i] + ":main")
				sched.Yield("stop-enter")
				if out("stop") == oErr {
					return errInner
				}
				return nil
			}
			inner[i] = services.NewBasicService(start, run, stop)
			inner[i].AddListener(lmon{nm[i]})
			s := inner[i]
			mm.RegisterModule(nm[i], func() (services.Service, error) { return s, nil })
		}
		for _, ed := range sc.shape.edges {
			if err := mm.AddDependency(nm[ed[0]], nm[ed[1]]); err != nil {
				panic(err)
			}
		}
		svcMap, err := mm.InitModuleServices(nm...)
		if err != nil {
			panic(err)
		}
		var wrappers []services.Service
		wname := map[services.Service]string{}
		for _, x := range nm {
			if s := svcMap[x]; s != nil {
				wrappers = append(wrappers, s)
				wname[s] = x
			}
		}
		mgr, err := services.NewManager(wrappers...)
		if err != nil {
			panic(err)
		}
		e.Enable()
		e.Go("a-start", func() { _ = mgr.StartAsync(context.Background()) })
		e.Go("z-stop", func() { sched.Obs("stop-all"); mgr.StopAsync() })
		status := e.Run()
		log := e.Events()
		canon := e.CanonLog()
		trace := append([]string{}, e.Trace...)
		parked := e.Parked()
		e.Disable()
		synctest.Wait()
		var viol, key string
		fail := func(k, f string, a ...any) {
			if viol == "" {
				viol, key = fmt.Sprintf(f, a...), k
			}
		}
		if status != "done" {
			fail("deadlock", "modules did not all stop: status=%s parked=%v log=%v", status, parked, canon)
		}
		first := func(text string) (int64, int) {
			for _, evn := range log {
				if evn.Text == text {
					return evn.Seq, evn.Step
				}
			}
			return 0, 0
		}
		var mask uint32
		for _, ed := range sc.shape.edges {
			mask |= 1 << (ed[0]*n + ed[1])
		}
		for i := 0; i < n && viol == ""; i++ {
			if inner[i] == nil {
				continue
			}
			startSeq, _ := first(nm[i] + " start-enter")
			deps := closure(n, mask, i)
			if startSeq != 0 {
				for d := range deps {
					if inner[d] == nil {
						continue
					}
					rs, _ := first(nm[d] + " Running")
					if rs == 0 || rs > startSeq {
						fail("start-order", "service of module %s was started before its dependency %s was running", nm[i], nm[d])
					}
				}
			}
			stopSeq, _ := first(nm[i] + " stop-requested")
			if stopSeq != 0 {
				for y := 0; y < n; y++ {
					if inner[y] == nil || !closure(n, mask, y)[i] {
						continue
					}
					ys, _ := first(nm[y] + " start-enter")
					if ys == 0 {
						continue // dependant never started
					}
					ts, _ := first(nm[y] + " Terminal")
					tf, _ := first(nm[y] + " Terminal(failed)")
					if tf != 0 && (ts == 0 || tf < ts) {
						ts = tf
					}
					if ts == 0 || ts > stopSeq {
						fail("stop-order", "service of module %s was asked to stop before its dependant %s had stopped", nm[i], nm[y])
					}
				}
			}
		}
		if viol == "" && sc.failMod >= 0 && sc.failAt == "start" {
			if fs, _ := first(nm[sc.failMod] + " start-enter"); fs != 0 {
				for y := 0; y < n; y++ {
					if inner[y] == nil || !closure(n, mask, y)[sc.failMod] {
						continue
					}
					if ys, _ := first(nm[y] + " start-enter"); ys != 0 {
						fail("started-after-failed-dep", "module %s failed to start but its dependant %s was started", nm[sc.failMod], nm[y])
					}
					if w := svcMap[nm[y]]; w != nil && status == "done" && w.State() != services.Failed {
						fail("dependant-not-failed", "module %s failed to start but its dependant %s ended %v", nm[sc.failMod], nm[y], w.State())
					}
				}
			}
		}
		if status == "done" && viol == "" {
			for _, w := range wrappers {
				if st := w.State(); st != services.Terminated && st != services.Failed {
					fail("not-terminal", "wrapper of module %s ended in state %v", wname[w], st)
				}
			}
		}
		var oc []string
		for _, w := range wrappers {
			oc = append(oc, wname[w]+"="+w.State().String())
		}
		sort.Strings(oc)
		res = sched.Result{Violation: viol, Key: key, Outcome: strings.Join(oc, ","), Trace: append(trace, canon...)}
		mgr.StopAsync()
		for _, s := range inner {
			if s != nil {
				s.StopAsync()
			}
		}
		e.Teardown()
	})
	return
}

func TestC18Runtime(t *testing.T) {
	rep := ev.NewReport("C18", "runtime-order")
	bound := 4
	if ev.Thorough() {
		bound = 6
	}
	if b := os.Getenv("VERIF_BOUND"); b != "" {
		fmt.Sscan(b, &bound)
	}
	var scs []rscenario
	for _, sh := range shapes {
		scs = append(scs, rscenario{shape: sh, failMod: -1, noSvc: -1})
		for m := 0; m < 3; m++ {
			for _, at := range []string{"start", "run", "stop"} {
				if !ev.Thorough() && at == "stop" && m != 1 {
					continue
				}
				scs = append(scs, rscenario{shape: sh, failMod: m, failAt: at, noSvc: -1})
			}
		}
		scs = append(scs, rscenario{shape: sh, failMod: -1, noSvc: 1})
	}
	rep.Bound = fmt.Sprintf("%d scenarios: the 6 DAG shapes on 3 modules × {no failure, module m fails in starting / running / stopping} (+ one module without a service); inner services are harness services whose functions park, wrappers and services.Manager are real; a stop request may arrive at any step; all orders in which the parked service functions complete and the stop request lands, with <= %d delays from the deterministic default order (services/*.go and modules/*.go run unmodified: their transitive-dependency maps are iterated in Go map order, so finer hook points would not replay)", len(scs), bound)
	rep.Rule = "stateless delay-bounded DFS; oracle on the timeline of inner-service events: a module's service starts only after every transitive dependency's service is Running; it is asked to stop only after every (started) dependant's service is terminal; when a dependency fails to start its dependants are never started and their wrappers fail; every wrapper ends terminal (no deadlock); distinct_nontrivial = distinct (scenario, final wrapper states)"
	deadline := ev.Deadline(8 * time.Minute)
	for _, sc := range scs {
		x := &sched.Explorer{Bound: bound, Report: rep, Deadline: deadline, Scenario: sc.String(), Run: func(c *sched.Chooser) sched.Result { return runRuntime(t, sc, c) }}
		if !x.ExploreOrReplay() {
			rep.NotExhaustive("deadline or violation cap in " + sc.String())
			break
		}
		rep.Add("scenarios_completed", 1)
		if x.Execs > 100 {
			rep.Sample(fmt.Sprintf("%s: %d executions, %d distinct outcomes", sc.String(), x.Execs, x.Outcomes()))
		}
	}
	if err := rep.Write(); err != nil {
		t.Fatal(err)
	}
}
