// C03 — ring merge is a CRDT. Engine E1: all pairs/triples/4-sequences of descriptors over a small
// universe, real Desc.Merge / PartitionRingDesc.Merge against a per-entry last-writer-wins reference.
package c03

import (
	"fmt"
	"sort"
	"strings"
	"testing"
	"time"

	"github.com/grafana/dskit/ring"

	"verif/enum"
	"verif/ev"
)

// ---------- instance ring ----------

type content struct {
	state  ring.InstanceState
	tokens []uint32 // raw (may be unsorted / duplicated)
}

// a content table fixes ONE content per (id, timestamp) — the proviso of the property.
type table map[string][]content // id -> content at ts 1..len

var tables = []table{
	{ // monotone progress, token growth
		"a": {{ring.PENDING, nil}, {ring.JOINING, []uint32{10, 11}}, {ring.ACTIVE, []uint32{10, 11}}, {ring.LEAVING, []uint32{10, 11}}},
		"b": {{ring.ACTIVE, []uint32{20}}, {ring.ACTIVE, []uint32{20, 21}}, {ring.LEAVING, []uint32{20, 21}}, {ring.ACTIVE, []uint32{21}}},
		"c": {{ring.JOINING, nil}, {ring.ACTIVE, []uint32{30}}, {ring.ACTIVE, []uint32{30, 31}}, {ring.ACTIVE, []uint32{31}}},
	},
	{ // shrinking tokens, unsorted and duplicated incoming lists, empty token lists
		"a": {{ring.ACTIVE, []uint32{12, 10, 11}}, {ring.ACTIVE, []uint32{10}}, {ring.ACTIVE, nil}, {ring.ACTIVE, []uint32{11, 11}}},
		"b": {{ring.JOINING, nil}, {ring.ACTIVE, []uint32{21, 20, 21}}, {ring.PENDING, []uint32{20}}, {ring.ACTIVE, []uint32{22, 20}}},
		"c": {{ring.ACTIVE, []uint32{30, 30}}, {ring.LEAVING, []uint32{30}}, {ring.ACTIVE, []uint32{31, 30}}, {ring.JOINING, []uint32{30}}},
	},
}

// entry spec: 0 = absent; otherwise ts = (v-1)/2+1, left = (v-1)%2 == 1
type dspec []int // per id

func (d dspec) String(ids []string) string {
	var sb strings.Builder
	for i, v := range d {
		if v == 0 {
			continue
		}
		ts, left := (v-1)/2+1, (v-1)%2 == 1
		if left {
			fmt.Fprintf(&sb, "%s@%d:LEFT ", ids[i], ts)
		} else {
			fmt.Fprintf(&sb, "%s@%d ", ids[i], ts)
		}
	}
	if sb.Len() == 0 {
		return "{}"
	}
	return "{" + strings.TrimSpace(sb.String()) + "}"
}

func normTokens(t []uint32) []uint32 {
	if len(t) == 0 {
		return nil
	}
	s := append([]uint32(nil), t...)
	sort.Slice(s, func(i, j int) bool { return s[i] < s[j] })
	out := s[:1]
	for _, x := range s[1:] {
		if x != out[len(out)-1] {
			out = append(out, x)
		}
	}
	return out
}

// tsOf maps the abstract timestamps 1..3 to the values written into the descriptors: the identity, or (last pass)
// a day before / at / a day ahead of the merging replica's clock — the result of a merge may depend on the order
// of the timestamps only, never on where they lie relative to the receiver's clock.
var tsOf = func(ts int) int64 { return int64(ts) }

// build a fresh descriptor; normalised=true builds the receiver form (sorted, dedup, LEFT without tokens).
func build(d dspec, ids []string, tb table, normalised bool) *ring.Desc {
	out := ring.NewDesc()
	for i, v := range d {
		if v == 0 {
			continue
		}
		ts, left := (v-1)/2+1, (v-1)%2 == 1
		c := tb[ids[i]][ts-1]
		in := ring.InstanceDesc{Id: ids[i], Addr: "addr-" + ids[i], Zone: "z", Timestamp: tsOf(ts), State: c.state, RegisteredTimestamp: 1}
		in.Tokens = append([]uint32(nil), c.tokens...)
		if left {
			in.State = ring.LEFT
			// raw tombstones may still carry tokens (older senders); normalisation must drop them
		}
		if normalised {
			in.Tokens = normTokens(in.Tokens)
			if left {
				in.Tokens = nil
			}
		}
		out.Ingesters[ids[i]] = in
	}
	return out
}

func canon(d *ring.Desc) string {
	if d == nil {
		return "<nil>"
	}
	ids := make([]string, 0, len(d.Ingesters))
	for id := range d.Ingesters {
		ids = append(ids, id)
	}
	sort.Strings(ids)
	var sb strings.Builder
	for _, id := range ids {
		in := d.Ingesters[id]
		fmt.Fprintf(&sb, "%s:%s@%d%v|", id, in.State, in.Timestamp, in.Tokens)
	}
	return sb.String()
}

// normal-form violations of a receiver after merge
func notNormal(d *ring.Desc) string {
	for id, in := range d.Ingesters {
		if in.State == ring.LEFT && len(in.Tokens) != 0 {
			return fmt.Sprintf("%s is LEFT but holds tokens %v", id, in.Tokens)
		}
		for i := 1; i < len(in.Tokens); i++ {
			if in.Tokens[i-1] >= in.Tokens[i] {
				return fmt.Sprintf("%s tokens not sorted/unique: %v", id, in.Tokens)
			}
		}
	}
	return ""
}

// reference join: per id the entry with the larger (ts, isLEFT) wins
func refJoin(specs ...dspec) dspec {
	out := make(dspec, len(specs[0]))
	for _, s := range specs {
		for i, v := range s {
			if v > out[i] { // encoding v = 2*(ts-1) + left + 1 is ordered exactly by (ts, left)
				out[i] = v
			}
		}
	}
	return out
}

func merge(a, b *ring.Desc) (*ring.Desc, *ring.Desc, error) {
	ch, err := a.Merge(b, false)
	if err != nil {
		return a, nil, err
	}
	if ch == nil {
		return a, nil, nil
	}
	return a, ch.(*ring.Desc), nil
}

func decode(ix, n, base int) dspec {
	d := make(dspec, n)
	for i := 0; i < n; i++ {
		d[i] = ix % base
		ix /= base
	}
	return d
}

func ipow(b, e int) int {
	r := 1
	for ; e > 0; e-- {
		r *= b
	}
	return r
}

type icfg struct {
	ids   []string
	maxTS int
}

func TestC03Instances(t *testing.T) {
	rep := ev.NewReport("C03", "instance-ring")
	triple := icfg{[]string{"a", "b"}, 3}
	seq4 := icfg{[]string{"a", "b"}, 2}
	if ev.Thorough() {
		triple = icfg{[]string{"a", "b", "c"}, 3}
		seq4 = icfg{[]string{"a", "b"}, 3}
	}
	rep.Bound = fmt.Sprintf("triples: ids %v × (absent | ts 1..%d × (table content | LEFT)); 4-sequences (start X + 3 updates, every order, 3 groupings, duplicated delivery): ids %v, ts 1..%d; %d content tables (monotone progress; shrinking/unsorted/duplicated/empty token lists); tokens disjoint across ids; the first table once more with the three timestamps a day before / at / a day ahead of the receiver's clock", triple.ids, triple.maxTS, seq4.ids, seq4.maxTS, len(tables))
	rep.Rule = "real Desc.Merge(other,false) on fresh copies: idempotence, commutativity, associativity, delta sufficiency (A⊔change(A,B) ≡ A⊔B and (A⊔X)⊔change(A,B) ≡ (A⊔X)⊔B for every X), nil change ⇒ unchanged, receiver stays normalised, result ≡ per-entry (timestamp, removal) maximum; distinct_nontrivial = distinct canonical merge results"
	deadline := ev.Deadline(10 * time.Minute)
	now := time.Now
	_ = now
	passes := append([]table(nil), tables...)
	passes = append(passes, tables[0]) // once more with timestamps around the receiver's clock (see tsOf)
	for ti, tb := range passes {
		tsOf = func(ts int) int64 { return int64(ts) }
		if ti == len(tables) {
			nowU := time.Now().Unix()
			tsOf = func(ts int) int64 { return nowU + int64(ts-2)*86400 }
		}
		// ---- triples ----
		ids := triple.ids
		base := 1 + 2*triple.maxTS
		U := ipow(base, len(ids))
		viol := func(kind string, what string, specs ...dspec) {
			var ss []string
			for _, s := range specs {
				ss = append(ss, s.String(ids))
			}
			rep.Violate(fmt.Sprintf("inst:%s:t%d:%s", kind, ti, strings.Join(ss, ",")), fmt.Sprintf("table %d, %s: %s", ti, strings.Join(ss, " , "), what), map[string]any{"table": ti, "specs": ss})
		}
		ok := enum.Par(U*U, deadline, func() bool { return rep.NumViolations() >= 20 }, func(ix int) {
			A, B := decode(ix%U, len(ids), base), decode(ix/U, len(ids), base)
			// A ⊔ B
			ab, ch, err := merge(build(A, ids, tb, true), build(B, ids, tb, false))
			rep.Eval(1)
			if err != nil {
				viol("err", err.Error(), A, B)
				return
			}
			want := canon(build(refJoin(A, B), ids, tb, true))
			got := canon(ab)
			rep.Distinct(fmt.Sprintf("t%d:%s", ti, got))
			if got != want {
				viol("lww", fmt.Sprintf("A⊔B = %s, per-entry (timestamp, removal) maximum = %s", got, want), A, B)
			}
			if s := notNormal(ab); s != "" {
				viol("norm", "receiver not normalised after merge: "+s, A, B)
			}
			if ch == nil && got != canon(build(A, ids, tb, true)) {
				viol("nilchange", fmt.Sprintf("merge reported no change but receiver changed to %s", got), A, B)
			}
			// idempotence
			_, ch2, _ := merge(ab, build(B, ids, tb, false))
			rep.Eval(1)
			if ch2 != nil || canon(ab) != got {
				viol("idem", fmt.Sprintf("(A⊔B)⊔B reported change %s / content %s, want no change and %s", canon(ch2), canon(ab), got), A, B)
			}
			// commutativity
			ba, _, _ := merge(build(B, ids, tb, true), build(A, ids, tb, false))
			rep.Eval(1)
			if canon(ba) != got {
				viol("comm", fmt.Sprintf("A⊔B = %s but B⊔A = %s", got, canon(ba)), A, B)
			}
			// delta sufficiency on the pre-merge state
			if ch != nil {
				a2, _, _ := merge(build(A, ids, tb, true), ch.Clone().(*ring.Desc))
				rep.Eval(1)
				if canon(a2) != got {
					viol("delta", fmt.Sprintf("A⊔change(A,B) = %s but A⊔B = %s (change = %s)", canon(a2), got, canon(ch)), A, B)
				}
			}
			for cx := 0; cx < U; cx++ {
				C := decode(cx, len(ids), base)
				// associativity
				l, _, _ := merge(build(A, ids, tb, true), build(B, ids, tb, false))
				l, _, _ = merge(l, build(C, ids, tb, false))
				bc, _, _ := merge(build(B, ids, tb, true), build(C, ids, tb, false))
				r, _, _ := merge(build(A, ids, tb, true), bc)
				rep.Eval(4)
				rep.Trans(1)
				if canon(l) != canon(r) {
					viol("assoc", fmt.Sprintf("(A⊔B)⊔C = %s but A⊔(B⊔C) = %s", canon(l), canon(r)), A, B, C)
				}
				if w := canon(build(refJoin(A, B, C), ids, tb, true)); canon(l) != w {
					viol("lww3", fmt.Sprintf("(A⊔B)⊔C = %s, reference = %s", canon(l), w), A, B, C)
				}
				// delta sufficiency on any replica that already contains A: X := C
				if ch != nil {
					ax, _, _ := merge(build(A, ids, tb, true), build(C, ids, tb, false))
					ax1, _, _ := merge(ax, ch.Clone().(*ring.Desc))
					ax2, _, _ := merge(build(A, ids, tb, true), build(C, ids, tb, false))
					ax2, _, _ = merge(ax2, build(B, ids, tb, false))
					rep.Eval(4)
					if canon(ax1) != canon(ax2) {
						viol("deltaX", fmt.Sprintf("(A⊔X)⊔change(A,B) = %s but (A⊔X)⊔B = %s (change = %s)", canon(ax1), canon(ax2), canon(ch)), A, B, C)
					}
				}
			}
			rep.State(1)
			if ix%(U*U/3+1) == 7 {
				rep.Sample(fmt.Sprintf("table %d: A=%s B=%s A⊔B=%s change=%s", ti, A.String(ids), B.String(ids), got, canon(ch)))
			}
		})
		if !ok {
			rep.NotExhaustive("deadline or violation cap in triples")
			break
		}
		// ---- histories: X then u1,u2,u3 in this order (all orders arise from enumeration), groupings, duplication ----
		ids = seq4.ids
		base = 1 + 2*seq4.maxTS
		U = ipow(base, len(ids))
		ok = enum.Par(U*U*U*U, deadline, func() bool { return rep.NumViolations() >= 20 }, func(ix int) {
			X, u1, u2, u3 := decode(ix%U, len(ids), base), decode(ix/U%U, len(ids), base), decode(ix/U/U%U, len(ids), base), decode(ix/U/U/U, len(ids), base)
			want := canon(build(refJoin(X, u1, u2, u3), ids, tb, true))
			bX := func() *ring.Desc { return build(X, ids, tb, true) }
			raw := func(s dspec) *ring.Desc { return build(s, ids, tb, false) }
			rcv := func(s dspec) *ring.Desc { return build(s, ids, tb, true) }
			// sequential
			s1 := bX()
			merge(s1, raw(u1))
			merge(s1, raw(u2))
			merge(s1, raw(u3))
			// right-grouped: X ⊔ (u1 ⊔ (u2 ⊔ u3))
			g23 := rcv(u2)
			merge(g23, raw(u3))
			g123 := rcv(u1)
			merge(g123, g23)
			s2 := bX()
			merge(s2, g123)
			// mixed grouping + duplicated delivery: (X ⊔ (u1⊔u2)) ⊔ u3 ⊔ u1 ⊔ u2 ⊔ u3
			g12 := rcv(u1)
			merge(g12, raw(u2))
			s3 := bX()
			merge(s3, g12)
			merge(s3, raw(u3))
			merge(s3, raw(u1))
			merge(s3, raw(u2))
			merge(s3, raw(u3))
			// deltas forwarded instead of full states: replica Y=u1 computes change(Y,u2); X receives u1, that change, then u3
			y := rcv(u1)
			_, chy, _ := merge(y, raw(u2))
			s4 := bX()
			merge(s4, raw(u1))
			if chy != nil {
				merge(s4, chy)
			}
			merge(s4, raw(u3))
			rep.Eval(17)
			rep.Trans(4)
			for k, s := range []*ring.Desc{s1, s2, s3, s4} {
				if canon(s) != want {
					rep.Violate(fmt.Sprintf("inst:hist%d:t%d:%s,%s,%s,%s", k, ti, X.String(ids), u1.String(ids), u2.String(ids), u3.String(ids)),
						fmt.Sprintf("table %d: replica starting at %s receiving %s, %s, %s (delivery form %d: 0 sequential, 1 right-grouped, 2 grouped+duplicated, 3 forwarded deltas) ends at %s, want %s", ti, X.String(ids), u1.String(ids), u2.String(ids), u3.String(ids), k, canon(s), want), nil)
				}
			}
		})
		if !ok {
			rep.NotExhaustive("deadline or violation cap in histories")
			break
		}
	}
	rep.Trace(rep.Evaluations)
	if err := rep.Write(); err != nil {
		t.Fatal(err)
	}
}

// ---------- partition ring ----------

// one partition: v=0 absent, else stateTs ∈{1,2}, deleted flag, lockTs ∈ {0,1,2}
// state table: ts1→Pending, ts2→Active (partition 0); ts1→Active, ts2→Inactive (partition 1); lock table: 0→false, 1→true, 2→false
var pStates = [][]ring.PartitionState{{ring.PartitionPending, ring.PartitionActive}, {ring.PartitionActive, ring.PartitionInactive}}
var lockTable = []bool{false, true, false}

type pspec struct {
	parts  []int // per partition 0 or 1+ (stateTs-1)*6 + deleted*3 + lockTs
	owners []int // per owner 0 or 1 + (ts-1)*2 + deleted
}

const partBase = 13
const ownerBase = 5

var ownerIDs = []string{"o", "p"}

func (p pspec) String() string {
	var sb strings.Builder
	for i, v := range p.parts {
		if v == 0 {
			continue
		}
		v--
		st := "tbl"
		if v/3%2 == 1 {
			st = "Deleted"
		}
		fmt.Fprintf(&sb, "P%d[state@%d=%s lock@%d] ", i, v/6+1, st, v%3)
	}
	for i, v := range p.owners {
		if v == 0 {
			continue
		}
		v--
		st := "Active"
		if v%2 == 1 {
			st = "Deleted"
		}
		fmt.Fprintf(&sb, "%s[@%d %s] ", ownerIDs[i], v/2+1, st)
	}
	if sb.Len() == 0 {
		return "{}"
	}
	return "{" + strings.TrimSpace(sb.String()) + "}"
}

func pbuild(p pspec) *ring.PartitionRingDesc {
	d := ring.NewPartitionRingDesc()
	for i, v := range p.parts {
		if v == 0 {
			continue
		}
		v--
		sts, del, lts := v/6+1, v/3%2 == 1, v%3
		st := pStates[i][sts-1]
		if del {
			st = ring.PartitionDeleted
		}
		d.Partitions[int32(i)] = ring.PartitionDesc{Id: int32(i), Tokens: []uint32{uint32(5 + i)}, State: st, StateTimestamp: int64(sts), StateChangeLocked: lockTable[lts], StateChangeLockedTimestamp: int64(lts)}
	}
	for i, v := range p.owners {
		if v == 0 {
			continue
		}
		v--
		ts, del := v/2+1, v%2 == 1
		st := ring.OwnerActive
		if del {
			st = ring.OwnerDeleted
		}
		// the partition an owner points to is part of its content and differs between its two timestamps
		// (an owner re-assigned to another partition): the whole entry is one last-writer-wins register
		d.Owners[ownerIDs[i]] = ring.OwnerDesc{OwnedPartition: int32((i + ts) % 2), State: st, UpdatedTimestamp: int64(ts)}
	}
	return d
}

func pcanon(d *ring.PartitionRingDesc) string {
	if d == nil {
		return "<nil>"
	}
	var pids []int
	for id := range d.Partitions {
		pids = append(pids, int(id))
	}
	sort.Ints(pids)
	var sb strings.Builder
	for _, id := range pids {
		p := d.Partitions[int32(id)]
		fmt.Fprintf(&sb, "P%d(id=%d):%s@%d lock=%v@%d tok=%v|", id, p.Id, p.State, p.StateTimestamp, p.StateChangeLocked, p.StateChangeLockedTimestamp, p.Tokens)
	}
	var oids []string
	for id := range d.Owners {
		oids = append(oids, id)
	}
	sort.Strings(oids)
	for _, id := range oids {
		o := d.Owners[id]
		fmt.Fprintf(&sb, "%s:p%d %s@%d|", id, o.OwnedPartition, o.State, o.UpdatedTimestamp)
	}
	return sb.String()
}

// reference join: state register max by (stateTs, deleted); lock register max by lockTs; owners max by (ts, deleted)
func prefJoin(specs ...pspec) pspec {
	out := pspec{parts: make([]int, len(specs[0].parts)), owners: make([]int, len(specs[0].owners))}
	for _, s := range specs {
		for i, v := range s.parts {
			if v == 0 {
				continue
			}
			if out.parts[i] == 0 {
				out.parts[i] = v
				continue
			}
			a, b := out.parts[i]-1, v-1
			stA, stB := a/3, b/3 // (stateTs-1)*2 + deleted : ordered by (ts, deleted)
			lA, lB := a%3, b%3
			if stB > stA {
				stA = stB
			}
			if lB > lA {
				lA = lB
			}
			out.parts[i] = 1 + stA*3 + lA
		}
		for i, v := range s.owners {
			if v > out.owners[i] {
				out.owners[i] = v
			}
		}
	}
	return out
}

func pmerge(a, b *ring.PartitionRingDesc) (*ring.PartitionRingDesc, *ring.PartitionRingDesc) {
	ch, err := a.Merge(b, false)
	if err != nil {
		panic(err)
	}
	if ch == nil {
		return a, nil
	}
	return a, ch.(*ring.PartitionRingDesc)
}

func pdecode(ix, np, no int) pspec {
	p := pspec{parts: make([]int, np), owners: make([]int, no)}
	for i := 0; i < np; i++ {
		p.parts[i] = ix % partBase
		ix /= partBase
	}
	for i := 0; i < no; i++ {
		p.owners[i] = ix % ownerBase
		ix /= ownerBase
	}
	return p
}

func TestC03Partitions(t *testing.T) {
	rep := ev.NewReport("C03", "partition-ring")
	// triples over (1 partition, 1 owner); pairs + X over (2 partitions, 2 owners) at thorough, (2 partitions,1 owner) at quick
	np3, no3 := 1, 1
	np2, no2 := 2, 1
	if ev.Thorough() {
		np3, no3 = 1, 2
		np2, no2 = 2, 2
	}
	rep.Bound = fmt.Sprintf("triples over %d partition(s) × %d owner(s), pairs over %d partitions × %d owner(s); partition = absent | state register (ts 1..2, table state or Deleted) × lock register (ts 0..2); owner = absent | ts 1..2 × (Active | Deleted), pointing to a different partition at each timestamp", np3, no3, np2, no2)
	rep.Rule = "real PartitionRingDesc.Merge(other,false) on fresh copies: idempotence, commutativity, associativity, delta sufficiency (also into A⊔X), nil change ⇒ unchanged, result ≡ per-register last-writer-wins reference (removal wins ties); distinct_nontrivial = distinct canonical merge results"
	deadline := ev.Deadline(10 * time.Minute)
	viol := func(kind, what string, specs ...pspec) {
		var ss []string
		for _, s := range specs {
			ss = append(ss, s.String())
		}
		rep.Violate(fmt.Sprintf("part:%s:%s", kind, strings.Join(ss, ",")), fmt.Sprintf("%s: %s", strings.Join(ss, " , "), what), map[string]any{"specs": ss})
	}
	pairChecks := func(A, B pspec) (got string, ch *ring.PartitionRingDesc) {
		ab, ch := pmerge(pbuild(A), pbuild(B))
		rep.Eval(1)
		got = pcanon(ab)
		rep.Distinct(got)
		if want := pcanon(pbuild(prefJoin(A, B))); got != want {
			viol("lww", fmt.Sprintf("A⊔B = %s, reference = %s", got, want), A, B)
		}
		if ch == nil && got != pcanon(pbuild(A)) {
			viol("nilchange", fmt.Sprintf("no change reported but receiver became %s", got), A, B)
		}
		_, ch2 := pmerge(ab, pbuild(B))
		if ch2 != nil || pcanon(ab) != got {
			viol("idem", fmt.Sprintf("(A⊔B)⊔B reported change %s", pcanon(ch2)), A, B)
		}
		ba, _ := pmerge(pbuild(B), pbuild(A))
		if pcanon(ba) != got {
			viol("comm", fmt.Sprintf("A⊔B = %s but B⊔A = %s", got, pcanon(ba)), A, B)
		}
		if ch != nil {
			a2, _ := pmerge(pbuild(A), ch.Clone().(*ring.PartitionRingDesc))
			if pcanon(a2) != got {
				viol("delta", fmt.Sprintf("A⊔change(A,B) = %s but A⊔B = %s (change %s)", pcanon(a2), got, pcanon(ch)), A, B)
			}
		}
		rep.Eval(3)
		return got, ch
	}
	tripleChecks := func(A, B, C pspec, ch *ring.PartitionRingDesc) {
		l, _ := pmerge(pbuild(A), pbuild(B))
		l, _ = pmerge(l, pbuild(C))
		bc, _ := pmerge(pbuild(B), pbuild(C))
		r, _ := pmerge(pbuild(A), bc)
		rep.Eval(4)
		rep.Trans(1)
		if pcanon(l) != pcanon(r) {
			viol("assoc", fmt.Sprintf("(A⊔B)⊔C = %s but A⊔(B⊔C) = %s", pcanon(l), pcanon(r)), A, B, C)
		}
		if w := pcanon(pbuild(prefJoin(A, B, C))); pcanon(l) != w {
			viol("lww3", fmt.Sprintf("(A⊔B)⊔C = %s, reference %s", pcanon(l), w), A, B, C)
		}
		if ch != nil {
			ax, _ := pmerge(pbuild(A), pbuild(C))
			ax1, _ := pmerge(ax, ch.Clone().(*ring.PartitionRingDesc))
			ax2, _ := pmerge(pbuild(A), pbuild(C))
			ax2, _ = pmerge(ax2, pbuild(B))
			rep.Eval(4)
			if pcanon(ax1) != pcanon(ax2) {
				viol("deltaX", fmt.Sprintf("(A⊔X)⊔change(A,B) = %s but (A⊔X)⊔B = %s (change %s)", pcanon(ax1), pcanon(ax2), pcanon(ch)), A, B, C)
			}
		}
	}
	U3 := ipow(partBase, np3) * ipow(ownerBase, no3)
	ok := enum.Par(U3*U3, deadline, func() bool { return rep.NumViolations() >= 20 }, func(ix int) {
		A, B := pdecode(ix%U3, np3, no3), pdecode(ix/U3, np3, no3)
		_, ch := pairChecks(A, B)
		for cx := 0; cx < U3; cx++ {
			tripleChecks(A, B, pdecode(cx, np3, no3), ch)
		}
		rep.State(1)
		if ix%(U3*U3/3+1) == 11 {
			rep.Sample(fmt.Sprintf("A=%s B=%s change=%s", A.String(), B.String(), pcanon(ch)))
		}
	})
	if !ok {
		rep.NotExhaustive("deadline or violation cap (triples)")
	}
	U2 := ipow(partBase, np2) * ipow(ownerBase, no2)
	ok = enum.Par(U2*U2, deadline, func() bool { return rep.NumViolations() >= 20 }, func(ix int) {
		A, B := pdecode(ix%U2, np2, no2), pdecode(ix/U2, np2, no2)
		pairChecks(A, B)
		rep.State(1)
	})
	if !ok {
		rep.NotExhaustive("deadline or violation cap (pairs)")
	}
	rep.Trace(rep.Evaluations)
	if err := rep.Write(); err != nil {
		t.Fatal(err)
	}
}
