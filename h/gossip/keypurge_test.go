package gossip

import (
	"context"
	"fmt"
	"runtime"
	"strings"
	"sync"
	"testing"
	"testing/synctest"
	"time"

	"github.com/grafana/dskit/ring"

	"verif/ev"
)

// TestC06KeyPurge: the convergence / watcher clause of C06 over histories in which the whole KEY is deleted
// (KV.Delete), the deletion spreads, the obsolete-entry timeout passes, housekeeping purges the key on every node
// and the key is then written again. The store's per-key version restarts after a purge; whatever a node or a
// watcher remembers about the key from before must not make it miss the new value. Every combination of the
// finite menu below is run on two real detached nodes; all transfers are loss-free (gossip of exactly what
// GetBroadcasts hands out, or a full-state exchange). Messages from before the purge are not re-delivered
// afterwards (queues are emptied while the network is quiet): re-delivery of pre-deletion messages is C04's topic.
func TestC06KeyPurge(t *testing.T) {
	rep := ev.NewReport("C06", "key-purge")
	rep.Bound = "2 detached nodes, one key; histories = 1..3 updates of instance x on node 0 (1 s apart, each transferred to node 1 by gossip or push/pull) ; Delete(key) on node 0 or 1, transferred by gossip or push/pull ; obsolete-entry timeout + 1 s ; housekeeping on both nodes ; 1..3 updates of instance y on node 0 or 1 (1 s apart, each transferred by gossip or push/pull) ; final push/pull both ways — with one extra watcher per node registered at the start, after the deletion or after the purge: every combination (3·2·2·2·3·2·2·3 = 864 histories)"
	rep.Rule = "at quiescence both nodes expose the same value, it contains the acknowledged writes made after the purge, and every registered watcher (those of the cluster harness, registered first, and the extra ones) was last called with exactly that value; distinct_nontrivial = distinct (history shape, final value)"
	type hist struct {
		k1, r1, d, rd, k2, w, r2, wt int
	}
	var hs []hist
	for k1 := 1; k1 <= 3; k1++ {
		for r1 := 0; r1 < 2; r1++ {
			for d := 0; d < 2; d++ {
				for rd := 0; rd < 2; rd++ {
					for k2 := 1; k2 <= 3; k2++ {
						for w := 0; w < 2; w++ {
							for r2 := 0; r2 < 2; r2++ {
								for wt := 0; wt < 3; wt++ {
									hs = append(hs, hist{k1, r1, d, rd, k2, w, r2, wt})
								}
							}
						}
					}
				}
			}
		}
	}
	route := []string{"gossip", "push/pull"}
	when := []string{"start", "after-delete", "after-purge"}
	var wg sync.WaitGroup
	idx := -1
	var imu sync.Mutex
	for wk := 0; wk < runtime.GOMAXPROCS(0); wk++ {
		wg.Add(1)
		go func() {
			defer wg.Done()
			for {
				imu.Lock()
				idx++
				k := idx
				imu.Unlock()
				if k >= len(hs) || rep.NumViolations() >= 10 {
					return
				}
				h := hs[k]
				name := fmt.Sprintf("%d update(s) of x on n0 via %s ; delete on n%d via %s ; purge ; %d update(s) of y on n%d via %s ; extra watchers registered %s", h.k1, route[h.r1], h.d, route[h.rd], h.k2, h.w, route[h.r2], when[h.wt])
				synctest.Test(t, func(t *testing.T) {
					c := newCluster(2, nil, 100, false)
					defer c.shutdown()
					type watcher struct {
						node int
						last string
						n    int
					}
					var extra []*watcher
					var cancels []context.CancelFunc
					defer func() {
						for _, cf := range cancels {
							cf()
						}
						synctest.Wait()
					}()
					register := func() {
						for i := range c.nodes {
							w := &watcher{node: i}
							extra = append(extra, w)
							ctx, cancel := context.WithCancel(context.Background())
							cancels = append(cancels, cancel)
							go c.nodes[i].cli.WatchKey(ctx, c.key, func(v interface{}) bool {
								w.n++
								w.last = descToRef(v).canon(c.base, false)
								return true
							})
						}
						synctest.Wait()
					}
					transfer := func(r, from, to int) {
						if r == 0 {
							for {
								msgs := c.nodes[from].kv.GetBroadcasts(0, 1<<20)
								if len(msgs) == 0 {
									break
								}
								for _, m := range msgs {
									c.nodes[to].kv.NotifyMsg(append([]byte(nil), m...))
									synctest.Wait()
								}
							}
						} else {
							c.nodes[to].kv.MergeRemoteState(c.nodes[from].kv.LocalState(false), false)
							synctest.Wait()
						}
					}
					write := func(node int, inst string, first bool) {
						op := opHeartbeat
						if first {
							op = opReg
						}
						c.applyCAS(step{node, op, inst})
						synctest.Wait()
					}
					if h.wt == 0 {
						register()
					}
					for i := 0; i < h.k1; i++ {
						write(0, "x", i == 0)
						transfer(h.r1, 0, 1)
						time.Sleep(time.Second)
					}
					if err := c.nodes[h.d].cli.Delete(context.Background(), c.key); err != nil {
						rep.Violate("C06:keypurge:delete:"+name, fmt.Sprintf("[%s]: Delete failed: %v", name, err), nil)
						return
					}
					synctest.Wait()
					transfer(h.rd, h.d, 1-h.d)
					if h.wt == 1 {
						register()
					}
					// the network is quiet for longer than the obsolete-entry timeout: nothing is left in the queues
					for i := range c.nodes {
						for len(c.nodes[i].kv.GetBroadcasts(0, 1<<20)) > 0 {
						}
					}
					time.Sleep(obsoleteTime + time.Second)
					for i := range c.nodes {
						c.nodes[i].kv.VerifCleanupObsoleteEntries()
					}
					synctest.Wait()
					if h.wt == 2 {
						register()
					}
					var lastTs int64
					for i := 0; i < h.k2; i++ {
						write(h.w, "y", i == 0)
						lastTs = time.Now().Unix()
						transfer(h.r2, h.w, 1-h.w)
						if i < h.k2-1 {
							time.Sleep(time.Second)
						}
					}
					transfer(1, 0, 1)
					transfer(1, 1, 0)
					transfer(1, 0, 1)
					rep.Eval(1)
					rep.Trans(int64(h.k1 + h.k2 + 6))
					v0, v1 := c.visible(0), c.visible(1)
					wantY := refState{"y": instEnt(ring.ACTIVE, lastTs, tokensOf["y"])}.canon(c.base, false)
					switch {
					case c.problem != "":
						rep.Violate("C06:keypurge:"+name, fmt.Sprintf("[%s]: %s", name, c.problem), nil)
					case v0 != v1:
						rep.Violate("C06:keypurge:diverge:"+name, fmt.Sprintf("[%s]: after the final full-state exchanges node 0 exposes %s, node 1 exposes %s", name, v0, v1), nil)
					case !strings.Contains(v0, wantY):
						rep.Violate("C06:keypurge:lost:"+name, fmt.Sprintf("[%s]: the nodes expose %s, which lacks the acknowledged write %s made after the purge", name, v0, wantY), nil)
					default:
						for i, n := range c.nodes {
							if n.watchLast != v0 {
								rep.Violate("C06:keypurge:watch:"+name, fmt.Sprintf("[%s]: the watcher registered on node %d at the start was last called with %q (%d calls), the value is %q", name, i, n.watchLast, n.watchN, v0), nil)
							}
						}
						for _, w := range extra {
							if w.last != v0 {
								rep.Violate("C06:keypurge:watch-extra:"+name, fmt.Sprintf("[%s]: the watcher registered on node %d %s was last called with %q (%d calls), the value is %q", name, w.node, when[h.wt], w.last, w.n, v0), nil)
							}
						}
					}
					rep.Distinct(fmt.Sprintf("%d/%d/%d/%d/%d/%d/%d/%d|%s", h.k1, h.r1, h.d, h.rd, h.k2, h.w, h.r2, h.wt, v0))
					if k%61 == 0 {
						rep.Sample(fmt.Sprintf("[%s] ⇒ %s", name, v0))
					}
				})
			}
		}()
	}
	wg.Wait()
	rep.State(int64(len(hs)))
	rep.Trace(rep.Transitions)
	if err := rep.Write(); err != nil {
		t.Fatal(err)
	}
}
