#!/bin/bash
# usage: confirm_seed.sh <ID> [suffix]   (seed dir /tmp/seed-<ID><suffix>, worktree /tmp/wt-<ID><suffix>)
# Confirms independently: demo fails with patch, existing tests of touched packages pass with patch,
# demo passes without patch. On success stores the seed under /verif/seeded/<ID><suffix>/ and removes the worktree.
ID=$1; SFX=$2; S=/tmp/seed-$ID$SFX; W=/tmp/wt-$ID$SFX; OUT=/verif/seeded/$ID$SFX
export GOFLAGS=-mod=mod GOPROXY=off
LOG=$S/confirm.log; : > $LOG
cd $W || exit 2
git checkout -q -- . 2>/dev/null
DEMO=$(cat $S/demo_path.txt); mkdir -p $(dirname $DEMO); cp $S/$(basename $DEMO) $DEMO
git apply $S/patch.diff || { echo "patch does not apply" | tee -a $LOG; exit 2; }
PKG=./$(dirname $DEMO)
echo "== demo with patch (expect FAIL)" >> $LOG
go test -vet=off -count=1 -run 'TestSeedDemo$' $PKG >> $LOG 2>&1; A=$?
PKGS=$(git diff --name-only | xargs -n1 dirname | sort -u | sed 's#^#./#; s#$#/...#' | tr '\n' ' ')
echo "== existing tests with patch: $PKGS (expect ok)" >> $LOG
go test -vet=off -count=1 -skip 'TestSeedDemo$' $PKGS > $S/existing.out 2>&1; B=$?
tail -15 $S/existing.out >> $LOG
if [ $B -ne 0 ]; then
  # timing-sensitive tests of the repository flake when the machine is loaded: re-run only the failed
  # top-level tests (twice); they count as passing only if both re-runs pass
  FAILED=$(grep -E '^--- FAIL: ' $S/existing.out | awk '{print $3}' | sort -u | paste -sd'|')
  if [ -n "$FAILED" ]; then
    echo "== re-running failed tests with patch: $FAILED" >> $LOG
    go test -vet=off -count=2 -run "^($FAILED)\$" $PKGS 2>&1 | tail -8 >> $LOG; B=${PIPESTATUS[0]}
  fi
fi
git apply -R $S/patch.diff
echo "== demo without patch (expect ok)" >> $LOG
go test -vet=off -count=1 -run 'TestSeedDemo$' $PKG >> $LOG 2>&1; C=$?
echo "demo_with_patch_exit=$A existing_tests_exit=$B demo_without_patch_exit=$C" | tee -a $LOG
if [ $A -ne 0 ] && [ $B -eq 0 ] && [ $C -eq 0 ]; then
  mkdir -p $OUT; cp $S/patch.diff $S/$(basename $DEMO) $S/demo_path.txt $OUT/
  python3 - "$S/meta.json" "$OUT/meta.json" "$PKGS" <<'PY'
import json,sys
m=json.load(open(sys.argv[1]))
m["confirmed_by_main"]={"demo_with_patch":"FAIL (as required)","existing_tests_with_patch":"ok: go test -vet=off -count=1 -skip TestSeedDemo$ "+sys.argv[3],"demo_without_patch":"ok"}
json.dump(m,open(sys.argv[2],"w"),indent=1)
PY
  echo CONFIRMED $ID$SFX | tee -a $LOG
  cd /; git -C /repo worktree remove --force $W
else
  echo NOT-CONFIRMED $ID$SFX | tee -a $LOG
fi
