package c13

import (
	"fmt"
	"os"
	"sort"
	"strings"
	"testing"
	"testing/synctest"
	"time"

	"github.com/go-kit/log"

	"github.com/grafana/dskit/ring"

	"verif/ev"
	"verif/sched"
)

// TestC13Concurrent — the "concurrent readers" clause (engine E2). ring/ring.go runs on the yielding sync
// shim; readers (shuffle shards with and without look-back through the subring caches, key lookups,
// counts) run concurrently with the watch-callback update of the long-lived client. Every answer must be
// the answer of a fresh cache-less client on one of the ring versions that were current during the call,
// and when everybody is done the client must be indistinguishable from a fresh one (no stale shard left
// in a cache by a reader that lost the race with a topology change).

// A query is a short list of API calls; each call is one linearizable operation (calls are not atomic
// together: another reader may refresh a cached shard, or an update may land, between two of them).
type cquery struct {
	name string
	run  func(r *ring.Ring, now time.Time) []string
}

func rrStr(rr ring.ReadRing) []string {
	var out []string
	out = append(out, "members="+setStr(rr.GetAllHealthy(ring.Reporting)))
	for _, k := range []uint32{1, 1 << 31} {
		out = append(out, fmt.Sprintf("Get(%d)=%s", k, setStr(rr.Get(k, ring.Write, nil, nil, nil))))
	}
	out = append(out, "InstancesCount="+fmt.Sprint(rr.InstancesCount()), "WritableInstancesWithTokensCount="+fmt.Sprint(rr.WritableInstancesWithTokensCount()))
	return out
}

func cqueries() map[string]cquery {
	qs := []cquery{
		{"shard2", func(r *ring.Ring, now time.Time) []string { return rrStr(r.ShuffleShard("tenant-a", 2)) }},
		{"shard1", func(r *ring.Ring, now time.Time) []string { return rrStr(r.ShuffleShard("tenant-a", 1)) }},
		{"lookback2", func(r *ring.Ring, now time.Time) []string {
			return rrStr(r.ShuffleShardWithLookback("tenant-a", 2, 100*time.Second, now))
		}},
		{"lookback1-old", func(r *ring.Ring, now time.Time) []string {
			return rrStr(r.ShuffleShardWithLookback("tenant-a", 1, 100*time.Second, now.Add(-150*time.Second)))
		}},
		{"get", func(r *ring.Ring, now time.Time) []string {
			return []string{"Get(1,Write)=" + setStr(r.Get(1, ring.Write, nil, nil, nil)), "Get(2^31,Read)=" + setStr(r.Get(1<<31, ring.Read, nil, nil, nil))}
		}},
		{"healthy", func(r *ring.Ring, now time.Time) []string {
			return []string{"GetReplicationSetForOperation(Read)=" + setStr(r.GetReplicationSetForOperation(ring.Read)),
				"InstancesCount=" + fmt.Sprint(r.InstancesCount()), "ZonesCount=" + fmt.Sprint(r.ZonesCount()), "WritableInstancesWithTokensCount=" + fmt.Sprint(r.WritableInstancesWithTokensCount())}
		}},
	}
	m := map[string]cquery{}
	for _, q := range qs {
		m[q.name] = q
	}
	return m
}

type cscenario struct {
	za      bool
	warm    []string // queries served before the race (fills the caches)
	updates []update // applied one after the other by the updater thread (at most one topology change)
	readers []string // one query per reader thread
}

func (s cscenario) String() string {
	var u []string
	for _, x := range s.updates {
		u = append(u, x.String())
	}
	return fmt.Sprintf("za=%v warm=%v updates=[%s] readers=%v", s.za, s.warm, strings.Join(u, ","), s.readers)
}

func cscenarios() []cscenario {
	var out []cscenario
	upds := [][]update{
		{{"tokens", "i1"}}, {{"tokens", "i2"}}, {{"remove", "i2"}}, {{"add", "i9"}}, {{"zone", "i2"}},
		{{"heartbeat", "i2"}}, {{"state", "i2"}}, {{"ro-toggle", "i1"}}, {{"regtime", "i2"}},
		{{"heartbeat", "i2"}, {"remove", "i2"}}, {{"state", "i2"}, {"tokens", "i1"}}, {{"tokens", "i2"}, {"state", "i2"}}, {{"state", "i2"}, {"state", "i2"}},
	}
	readers := [][]string{{"shard2", "shard2"}, {"shard2", "lookback2"}, {"lookback2", "lookback2"}, {"shard1", "get"}, {"lookback1-old", "lookback2"}, {"shard2", "healthy"}}
	for _, za := range []bool{false, true} {
		for _, u := range upds {
			for _, r := range readers {
				for _, warm := range [][]string{nil, {"shard2", "lookback2"}} {
					if za && warm != nil && len(u) == 1 && (u[0].kind == "regtime" || u[0].kind == "zone") {
						continue // keep the quick tier small: these are covered without zones
					}
					out = append(out, cscenario{za: za, warm: warm, updates: u, readers: r})
				}
			}
		}
	}
	return out
}

func runConc(t *testing.T, sc cscenario, ch *sched.Chooser) (res sched.Result) {
	synctest.Test(t, func(t *testing.T) {
		e := sched.NewExec(ch)
		e.MaxSteps = 4000
		qs := cqueries()
		t0 := time.Now()
		mkRing := func(cache bool) *ring.Ring {
			r, err := ring.NewWithStoreClientAndStrategy(ringCfg(sc.za, cache), "c13c", "ring", nil, ring.NewDefaultReplicationStrategy(), nil, log.NewNopLogger())
			if err != nil {
				panic(err)
			}
			return r
		}
		// versions of the content: 0 = base, k = after update k
		descs := []*ring.Desc{baseDesc(t0, sc.za)}
		live := mkRing(true)
		live.VerifUpdateRingState(descs[0])
		for _, w := range sc.warm {
			qs[w].run(live, t0)
		}
		// the race happens a little later (topology changes are stamped with the clock)
		time.Sleep(time.Second)
		now := time.Now()
		for _, u := range sc.updates {
			descs = append(descs, apply(descs[len(descs)-1], u, now, true))
		}
		// what a fresh cache-less client answers on each version
		want := map[string][][]string{}
		for _, rn := range sc.readers {
			for _, d := range descs {
				f := mkRing(false)
				f.VerifUpdateRingState(apply(d, update{kind: "resend"}, now, false))
				want[rn] = append(want[rn], qs[rn].run(f, now))
			}
		}
		e.Enable()
		e.Go("u", func() {
			for k := 1; k < len(descs); k++ {
				sched.Yield("update")
				sched.Obs(fmt.Sprintf("upd-begin %d", k))
				live.VerifUpdateRingState(descs[k])
				sched.Yield("updated")
				sched.Obs(fmt.Sprintf("upd-end %d", k))
			}
		})
		answers13 := make([][]string, len(sc.readers))
		for i, rn := range sc.readers {
			e.Go(fmt.Sprintf("r%d", i), func() {
				sched.Yield("query")
				sched.Obs(fmt.Sprintf("q-begin %d", i))
				answers13[i] = qs[rn].run(live, now)
				sched.Yield("answered")
				sched.Obs(fmt.Sprintf("q-end %d", i))
			})
		}
		status := e.Run()
		trace := append([]string{}, e.Trace...)
		canon := e.CanonLog()
		evs := e.Events()
		leaked := e.Teardown()
		var viol, key string
		fail := func(k, f string, a ...any) {
			if viol == "" {
				viol, key = fmt.Sprintf(f, a...), k
			}
		}
		if status != "done" {
			fail("stuck", "execution did not finish: status=%s blocked=%v", status, leaked)
		}
		stepOf := func(text string) int {
			for _, x := range evs {
				if x.Text == text {
					return x.Step
				}
			}
			return -1
		}
		if viol == "" {
			for i, rn := range sc.readers {
				qb, qe := stepOf(fmt.Sprintf("q-begin %d", i)), stepOf(fmt.Sprintf("q-end %d", i))
				lo, hi := 0, 0
				for k := 1; k < len(descs); k++ {
					ub, ue := stepOf(fmt.Sprintf("upd-begin %d", k)), stepOf(fmt.Sprintf("upd-end %d", k))
					if ue >= 0 && ue < qb {
						lo = k // update k had completed before the query began
					}
					if ub >= 0 && ub <= qe {
						hi = k // update k had begun before the query ended
					}
				}
				for c, got := range answers13[i] {
					ok := false
					var alts []string
					for v := lo; v <= hi; v++ {
						if got == want[rn][v][c] {
							ok = true
						}
						alts = append(alts, want[rn][v][c])
					}
					if !ok {
						fail("answer:"+rn, "reader %d (%s) ran while ring versions %d..%d were current and answered\n    %s\n  a fresh client answers\n    %s", i, rn, lo, hi, got, strings.Join(alts, "\n    or "))
					}
				}
			}
		}
		if viol == "" {
			// afterwards the client is indistinguishable from a fresh one on the latest content
			fresh := mkRing(false)
			fresh.VerifUpdateRingState(apply(descs[len(descs)-1], update{kind: "resend"}, now, false))
			ids := []string{"i0", "i1", "i2", "i3", "i9"}
			a, b := answers(live, now, ids, false), answers(fresh, now, ids, false)
			for i := range a {
				if a[i] != b[i] {
					fail("after:"+strings.SplitN(a[i], " = ", 2)[0], "after the race the long-lived client answers\n    %s\n  but a client built from the latest content answers\n    %s", a[i], b[i])
					break
				}
			}
		}
		vs := make([]string, len(answers13))
		for i, a := range answers13 {
			for c, got := range a {
				x := "?"
				for v, w := range want[sc.readers[i]] {
					if got == w[c] {
						x = fmt.Sprint(v)
						break
					}
				}
				vs[i] += x
			}
		}
		res = sched.Result{Violation: viol, Key: key, Outcome: strings.Join(vs, ","), Trace: append(trace, canon...)}
	})
	return
}

func TestC13Concurrent(t *testing.T) {
	rep := ev.NewReport("C13", "concurrent-readers")
	bound := 2
	if ev.Thorough() {
		bound = 3
	}
	if b := os.Getenv("VERIF_BOUND"); b != "" {
		fmt.Sscan(b, &bound)
	}
	scs := cscenarios()
	if !ev.Thorough() {
		// quick tier: every update list and reader pair, cold caches without zones / warm caches with zones
		var keep []cscenario
		for _, s := range scs {
			if (s.warm == nil) != s.za {
				keep = append(keep, s)
			}
		}
		scs = keep
	}
	sort.SliceStable(scs, func(i, j int) bool { return len(scs[i].updates) < len(scs[j].updates) })
	rep.Bound = fmt.Sprintf("%d scenarios: base ring of 4 instances; updater thread applying 1..2 descriptor updates (token, zone, add, remove, heartbeat-only, state-only, read-only, registration-time; at most one topology change) through the watch-callback path; 2 reader threads from {ShuffleShard size 1/2, ShuffleShardWithLookback now / 150 s ago, Get, GetReplicationSetForOperation+counts}; caches cold or warmed; zone-awareness on/off; all schedules with <= %d preemptions over every RWMutex operation of ring/ring.go (parent ring and cached subrings)", len(scs), bound)
	rep.Rule = "stateless DFS on the real Ring; every reader's answer must equal the answer of a fresh cache-less client on a ring version that was current between the reader's start and end (linearizability against the sequence of contents), and after the race the whole query vector (~190 answers incl. cached shards) must equal a fresh client's on the latest content; distinct_nontrivial = distinct (scenario, versions the readers observed)"
	rep.Assumptions = []string{"goroutine segments between lock operations commute unless they race (data races are outside: separate -race run)"}
	deadline := ev.Deadline(8 * time.Minute)
	si, sn := ev.Shard()
	for i, sc := range scs {
		if i%sn != si {
			continue
		}
		x := &sched.Explorer{Bound: bound, Report: rep, Deadline: deadline, Scenario: sc.String(), NoShard: true,
			Run: func(c *sched.Chooser) sched.Result { return runConc(t, sc, c) }}
		if !x.ExploreOrReplay() {
			rep.NotExhaustive("deadline or violation cap in scenario " + sc.String())
			break
		}
	}
	if err := rep.Write(); err != nil {
		t.Fatal(err)
	}
}
